------------------------------- MODULE MC_Api -------------------------------
(* Design-level check of C05: for every configuration (family x validation x  *)
(* derive set x new_unchecked flag x feature x visibility x const_fn) the     *)
(* items the generator emits satisfy the capability rules ApiOK.              *)
EXTENDS NutypeApi, Json, SequencesExt

TraitOrder == <<"AsRef", "Deref", "Borrow", "Display", "From", "TryFrom", "FromStr", "Default", "Into",
                "Serialize", "Deserialize", "Arbitrary", "IntoIterator">>
AsSeq(D) == SelectSeq(TraitOrder, LAMBDA t : t \in D)
AllT == {TraitOrder[i] : i \in DOMAIN TraitOrder}
TraitSets == {{}} \cup {{t} : t \in AllT} \cup {{a, b} : a \in AllT, b \in AllT} \cup {AllT \ {"From"}, AllT \ {"TryFrom"}}
             \cup {{"AsRef", "Deref", "Borrow", "Into", "FromStr", "Display"}, {"AsRef", "Deref", "Borrow", "Into"}}

Cfgs == {[fam |-> fam, type |-> "Nt", validated |-> v, traits |-> D, trait_seq |-> AsSeq(D), new_unchecked |-> nu,
          feature_new_unchecked |-> fe, vis |-> vis, const_fn |-> cf] :
           fam \in {"int", "float", "string", "any"}, v \in BOOLEAN, D \in TraitSets, nu \in BOOLEAN, fe \in BOOLEAN,
           vis \in {"", "pub", "pub(crate)"}, cf \in BOOLEAN}

VARIABLES cfg, emitted
avars == <<cfg, emitted>>
AInit == cfg \in Cfgs /\ emitted = <<>>
\* gen_nutype emits the module
Generate == emitted = <<>> /\ emitted' = OpApi(cfg) /\ UNCHANGED cfg
ASpec == AInit /\ [][Generate]_avars

NoBypass == (emitted # <<>>) => ApiOK(cfg, emitted)

-----------------------------------------------------------------------------
(* Attack catalogue: client programs that try to create or mutate a value  *)
(* without the guards.  An attack needs a capability; the design invariant *)
(* NoBypass says no emitted item offers it, so every applicable attack is  *)
(* expected to FAIL TO COMPILE.  The harness renders each row to a program *)
(* (plus a positive control per base declaration) and lets rustc judge.    *)

Attacks == {"tuple_ctor", "struct_literal", "hidden_module_ctor", "field_read", "field_write", "destructure",
            "deref_assign", "as_mut", "borrow_mut", "deref_mut", "mem_replace", "iter_mut", "for_in_mut", "push_through_deref",
            "call_sanitize", "call_validate", "new_unchecked_without_flag", "new_unchecked_without_unsafe",
            "default_without_default", "from_with_validation", "name_private_type", "name_private_error", "name_private_parse_error",
            \* second catalogue wave: the same capabilities reached through other syntax
            "struct_update", "ref_mut_pattern", "index_mut", "string_push_through_deref", "op_assign_through_deref",
            "into_mut_ref", "as_mut_method", "swap_through_deref"}

\* the capability an attack needs, as a predicate on the emitted items
Needs(a, c, items) ==
  CASE a \in {"tuple_ctor", "struct_literal", "field_read", "field_write", "destructure", "struct_update", "ref_mut_pattern"} ->
         \E i \in DOMAIN items : items[i].kind = "struct" /\ items[i].field_vis # ""
    [] a = "hidden_module_ctor" -> \E i \in DOMAIN items : items[i].kind = "mod" /\ items[i].vis # ""
    [] a \in {"deref_assign", "deref_mut", "mem_replace", "iter_mut", "push_through_deref",
               "index_mut", "string_push_through_deref", "op_assign_through_deref", "swap_through_deref"} ->
         \E i \in DOMAIN items : items[i].kind = "impl" /\ items[i].trait_name = "DerefMut"
    [] a = "as_mut" -> \E i \in DOMAIN items : items[i].kind = "impl" /\ items[i].trait_name = "AsMut"
    \* method-call syntax auto-derefs: `t.as_mut()` also resolves to the inner type's AsMut when DerefMut is offered
    [] a = "as_mut_method" -> \E i \in DOMAIN items : items[i].kind = "impl" /\ items[i].trait_name \in {"AsMut", "DerefMut"}
    \* `(&mut t).into()` needs an impl of From / Into that hands out `&mut Inner`
    [] a = "into_mut_ref" -> \E i \in DOMAIN items : items[i].kind = "impl" /\ items[i].trait_name \in {"From", "Into"} /\ items[i].for_mut_ref
    [] a = "borrow_mut" -> \E i \in DOMAIN items : items[i].kind = "impl" /\ items[i].trait_name = "BorrowMut"
    [] a = "for_in_mut" -> \E i \in DOMAIN items : items[i].kind = "impl" /\ items[i].trait_name = "IntoIterator" /\ items[i].for_mut_ref
    [] a \in {"call_sanitize", "call_validate"} -> \E i \in Fns(items) : items[i].name \in {"__sanitize__", "__validate__"} /\ items[i].vis # ""
    [] a = "new_unchecked_without_flag" -> \E i \in Fns(items) : items[i].name = "new_unchecked"
    [] a = "new_unchecked_without_unsafe" -> \E i \in Fns(items) : items[i].name = "new_unchecked" /\ ~items[i].unsafe
    [] a = "default_without_default" -> \E i \in DOMAIN items : items[i].kind = "impl" /\ items[i].trait_name = "Default"
    [] a = "from_with_validation" -> \E i \in DOMAIN items : items[i].kind = "impl" /\ items[i].trait_name = "From" /\ items[i].in_type_impl
    [] a \in {"name_private_type", "name_private_error", "name_private_parse_error"} ->
         \E i \in DOMAIN items : items[i].kind = "use" /\ items[i].vis # c.vis

\* which (configuration, attack) pairs make sense to try
Applicable(a, c) ==
  CASE a \in {"iter_mut", "for_in_mut", "push_through_deref", "index_mut"} -> c.fam = "any" /\ "Deref" \in c.traits
    [] a \in {"deref_assign", "deref_mut", "mem_replace", "swap_through_deref"} -> "Deref" \in c.traits
    [] a = "string_push_through_deref" -> c.fam = "string" /\ "Deref" \in c.traits
    [] a = "op_assign_through_deref" -> c.fam \in {"int", "float"} /\ "Deref" \in c.traits
    [] a \in {"as_mut", "as_mut_method"} -> "AsRef" \in c.traits
    [] a = "into_mut_ref" -> "Into" \in c.traits
    [] a = "borrow_mut" -> "Borrow" \in c.traits
    [] a = "call_validate" -> c.validated
    [] a = "new_unchecked_without_flag" -> ~c.new_unchecked
    [] a = "new_unchecked_without_unsafe" -> c.new_unchecked /\ c.feature_new_unchecked
    [] a = "default_without_default" -> "Default" \notin c.traits
    [] a = "from_with_validation" -> c.validated /\ "From" \notin c.traits
    [] a \in {"name_private_type"} -> c.vis = ""
    [] a = "name_private_error" -> c.vis = "" /\ c.validated
    [] a = "name_private_parse_error" -> c.vis # "pub" /\ "FromStr" \in c.traits /\ c.fam # "string"
    [] OTHER -> TRUE

\* base configurations the attacks are tried on
\* the catalogue inner type of the `any` family (Vec<i32>) has no FromStr / Display: it gets the view traits only
BaseTraits == {{"AsRef", "Deref", "Borrow", "Into", "FromStr", "Display"}, {}}
AnyBaseTraits == {{"AsRef", "Deref", "Borrow", "Into"}, {}}
BaseCfgs == {c \in Cfgs : (c.new_unchecked => c.feature_new_unchecked) /\ c.feature_new_unchecked
                          /\ (IF c.fam = "any" THEN c.traits \in AnyBaseTraits ELSE c.traits \in BaseTraits) /\ c.vis \in {"", "pub(crate)"}}

\* the design says every applicable attack fails: no emitted item offers the capability
AttacksFail == (emitted # <<>> /\ cfg \in BaseCfgs) => \A a \in Attacks : Applicable(a, cfg) => ~Needs(a, cfg, emitted)

EmitAttacks == (emitted # <<>> /\ cfg \in BaseCfgs) =>
  PrintT(<<"ATTACKS", 0, ToJson([cfg |-> [fam |-> cfg.fam, validated |-> cfg.validated, traits |-> cfg.trait_seq, new_unchecked |-> cfg.new_unchecked,
                                          vis |-> cfg.vis, const_fn |-> cfg.const_fn],
                                 attacks |-> {a \in Attacks : Applicable(a, cfg)}])>>)
=============================================================================

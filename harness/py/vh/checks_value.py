"""Checks built on the run-time layer (NutypeValue / ValueMachine / Trace_Value)."""
import json
import os
import random

from .common import WORK, ToolError, Verdict, Timer, ensure_dir, log, seed, tier
from .crate import Crate, shard
from .driver_value import render_module, render_main
from .render_value import render_decl_only
from . import value_layer as VL
from .tlc import validate_trace_chunks


def build_and_run(name, decls, rows_of, features, deps, nshards=4, release=False):
    """decls: list of concrete declarations. rows_of(d) -> script rows.
    Returns (obs paths, rejected {id: msgs}, alive ids)."""
    by_id = {d["id"]: d for d in decls}
    shards = shard(decls, nshards)
    crates = []
    for i, sh_decls in enumerate(shards):
        files = {d["id"]: render_module(d) for d in sh_decls}
        crates.append(Crate("%s_s%d" % (name, i), features, deps, files, render_main))
    for c in crates:
        c.write()
    for c in crates:
        c.build(release=release)
    obs_paths, rejected, alive = [], {}, []
    rundir = ensure_dir(os.path.join(WORK, "run", name))
    import concurrent.futures as cf

    def run_one(c):
        script = os.path.join(rundir, c.name + ".script.ndjson")
        obs = os.path.join(rundir, c.name + ".obs.ndjson")
        with open(script, "w") as f:
            for k in c.alive:
                for row in rows_of(by_id[k]):
                    f.write(json.dumps(row) + "\n")
        c.run([script, obs])
        return obs
    with cf.ThreadPoolExecutor(max_workers=len(crates)) as ex:
        obs_paths = list(ex.map(run_one, crates))
    for c in crates:
        rejected.update(c.rejected)
        alive.extend(c.alive)
    return obs_paths, rejected, alive


def describe_decl(d):
    return render_decl_only(d)


def judge_trace(prop, verdict, name, decls, obs_paths, stats, want_eps=None):
    """project observations, validate with TLC, feed the verdict. Returns summary."""
    by_id = {d["id"]: d for d in decls}
    table, events, index = {}, [], []
    for p in obs_paths:
        t, e, ix = VL.project(by_id, p)
        table.update(t)
        events.extend(e)
        index.extend(ix)
    # measured: distinct pairs whose outcome is not the trivial "accepted unchanged"
    nontrivial = set()
    for e in events:
        for mi, mo in zip(e["ins"], e["outs"]):
            if not (isinstance(mo, dict) and mo.get("k") == "ok" and mo.get("v") == mi.get("v")):
                nontrivial.add((e["d"], e["ep"], json.dumps(mi, sort_keys=True)))
    stats["nontrivial_pairs"] = stats.get("nontrivial_pairs", 0) + len(nontrivial)
    summary, bad, drift, states = validate_trace_chunks("Trace_Value", "Trace_Value.cfg", "trace_" + name, events, table)
    stats["trace_events"] = stats.get("trace_events", 0) + summary["events"]
    stats["trace_pairs"] = stats.get("trace_pairs", 0) + summary["pairs"]
    stats["trace_states"] = stats.get("trace_states", 0) + states
    stats.setdefault("nan_policy", {}).update({name: summary["pol"]})
    if "CONFLICT" in summary["pol"].values():
        verdict.violation({"property": prop, "summary": "inconsistent treatment of NaN against bound validators across declarations: %s" % summary["pol"], "family": "float", "nan_policy": summary["pol"]})
    verdict.drift += len(drift)
    for (l, i, obj) in bad:
        did, ep, raw = index[l]
        inp, out, xobs = raw[i - 1]
        d = by_id[did]
        rec = {
            "property": prop, "decl": did, "family": d["fam"], "ty": d["ty"], "ep": ep,
            "input": inp, "observed": out, "extra_observations": xobs, "model_input": obj["inp"], "model_observed": obj["got"],
            "declarative_outcome": obj["want"], "nan_involved": obj["nan"],
            "declaration": describe_decl(d),
            "validators": [r_["k"] for r_ in d["val"]], "sanitizers": [s["k"] + ":" + s["fn"] for s in d["san"]],
            "observed_kind": out.get("k"), "want_kind": obj["want"]["k"],
            "summary": "%s %s %s(%s): observed %s, declarative statement demands %s" % (
                did, d["ty"], ep, json.dumps(inp), json.dumps(out), json.dumps(obj["want"])),
        }
        verdict.violation(rec)
    for (l, i, obj) in drift[:5]:
        did, ep, raw = index[l]
        verdict.notes.append("drift at %s %s: %s" % (did, ep, json.dumps(obj)[:300]))
    return summary


# ------------------------------------------------------------------ slices

def shape_key(ad):
    return (ad.get("ty", ""), ad["vmode"], tuple(s["k"] + ":" + s.get("fn", "") for s in ad["san"]),
            tuple(r["k"] + ":" + r.get("fn", "") + ":" + r.get("sp", "") for r in ad["val"]), tuple(t for t in ad["traits"] if t in ("From", "TryFrom", "Eq", "Ord")))


def sample_decls(adecls, n, rng, must=None):
    """seeded sample of the TLC-enumerated declarations, STRATIFIED by shape (sanitizer sequence, validator sequence,
    validation mode, spellings): one declaration per shape in turn, so that rare shapes (three sanitizers with the
    custom one in the middle, `finite` written last, ...) are replayed as reliably as common ones."""
    if n is None or n >= len(adecls):
        return list(adecls)
    if must:
        # declarations the caller insists on (shapes of repaired defects / of the property's own clause) come first,
        # themselves stratified, up to a third of the sample
        m = [ad for ad in adecls if must(ad)]
        if m and len(m) < len(adecls):
            first = sample_decls(m, min(len(m), max(1, n // 3)), rng) if len(m) > max(1, n // 3) else list(m)
            keys_first = set(json.dumps(ad, sort_keys=True) for ad in first)
            rest = [ad for ad in adecls if json.dumps(ad, sort_keys=True) not in keys_first]
            return first + sample_decls(rest, n - len(first), rng)
    groups = {}
    for ad in adecls:
        groups.setdefault(shape_key(ad), []).append(ad)
    keys = sorted(groups, key=lambda k: json.dumps(k))
    rng.shuffle(keys)
    for k in keys:
        rng.shuffle(groups[k])
    out = []
    while len(out) < n:
        progressed = False
        for k in keys:
            if groups[k]:
                out.append(groups[k].pop())
                progressed = True
                if len(out) >= n:
                    break
        if not progressed:
            break
    return out


def instantiate_slice(fam, adecls, rng, prefix, lifts=1):
    """concrete declarations for the abstract ones: the native instantiation plus `lifts` twins."""
    from .values import INT_TYPES, ARITH_INT
    out = []
    for i, ad in enumerate(adecls):
        if fam == "int":
            out.append(VL.instantiate_int(ad, ad["ty"], "%s%04d" % (prefix, i)))
            signed = INT_TYPES[ad["ty"]][0] < 0
            tys = [t for t in INT_TYPES if (INT_TYPES[t][0] < 0) == signed and t != ad["ty"]]
            # stratified: rotate through the widths so that every integer type is instantiated for many shapes
            rot = i % len(tys)
            tys = tys[rot:] + tys[:rot]
            n = 0
            for ty2 in tys:
                if n >= lifts:
                    break
                if ty2 in ARITH_INT or VL.int_order_only(ad):
                    out.append(VL.instantiate_int(ad, ty2, "%s%04d_%s" % (prefix, i, ty2)))
                    n += 1
        elif fam == "float":
            out.append(VL.instantiate_float(ad, "f32", "%s%04d_f32" % (prefix, i)))
            if lifts:
                out.append(VL.instantiate_float(ad, "f64", "%s%04d_f64" % (prefix, i)))
        else:
            d = VL.instantiate_plain(ad, "%s%04d" % (prefix, i))
            if fam == "string" and i % 3:
                # the model's length bounds (1, 2) are lifted order-preservingly (1 -> 1, 2 -> 4 or 1 -> 2, 2 -> 5), so that
                # gaps wider than one character between `len_char_min` and `len_char_max` are replayed too
                m = {1: 1, 2: 4} if i % 3 == 1 else {1: 2, 2: 5}
                for r in d["val"]:
                    if r["k"] in ("len_char_min", "len_char_max"):
                        r["b"] = m.get(r["b"], r["b"])
            out.append(d)
    return out


def const_twin(d, did):
    """the same declaration with `const_fn` (custom functions rendered as `const fn`), or None when a
    catalogue function has no const rendering. Also evaluated in const context on a few literal inputs."""
    import copy
    from .render_value import san_const_fn, pred_const_fn
    if d["fam"] not in ("int", "float") or d["vmode"] == "custom":
        return None
    for s in d["san"]:
        if san_const_fn(d, s, "x") is None:
            return None
    for r in d["val"]:
        if r["k"] == "predicate" and pred_const_fn(d, r, "x") is None:
            return None
    t = copy.deepcopy({k: v for k, v in d.items() if k != "_phi"})
    if "_phi" in d:
        t["_phi"] = d["_phi"]
    t["id"] = did
    t["const_fn"] = True
    t["traits"] = [x for x in t["traits"] if x not in ("Default",)]
    marks = []
    for r in d["val"]:
        if r["k"] in ("greater", "greater_or_equal", "less", "less_or_equal"):
            marks.append(r["b"])
    if d["fam"] == "int":
        from .values import INT_TYPES
        lo, hi = INT_TYPES[d["ty"]]
        cand = sorted({v for m in marks for v in (m - 1, m, m + 1) if lo <= v <= hi} | {lo, hi, 0 if lo <= 0 else lo})
    else:
        cand = sorted(set(marks) | {f_bits_of(d["ty"], 0.0), f_bits_of(d["ty"], 5.5)})[:5]
        # NaN payloads and +inf also go through rustc's const evaluator
        cand += [0x7fc00000, 0xffc00001, 0x7f800000] if d["ty"] == "f32" else [0x7ff8000000000000, 0xfff8000000000001, 0x7ff0000000000000]
    t["const_inputs"] = cand[:8]
    return t


def f_bits_of(ty, x):
    from .values import f_bits
    return f_bits(ty, x)


def inputs_for(d, rng, nrandom):
    if d["fam"] == "int":
        return VL.int_inputs(d, rng, nrandom)
    if d["fam"] == "float":
        return VL.float_inputs(d, rng, nrandom)
    if d["fam"] == "string":
        return VL.string_inputs(d, rng, nrandom)
    return VL.any_inputs(d, rng, nrandom)


def rows_direct(d, rng, nrandom, eps=None, with_default=True):
    ins = [VL.enc_value(d, v) for v in inputs_for(d, rng, nrandom)]
    rows = []
    for ep in VL.direct_eps(d):
        if eps is None or ep in eps:
            rows.append({"d": d["id"], "ep": ep, "ins": ins})
    if with_default and "Default" in d["traits"] and d["dflt"] and (eps is None or "default" in eps):
        rows.append({"d": d["id"], "ep": "default", "ins": [None]})
    if d.get("const_inputs"):
        ep = "try_new_const" if d["vmode"] != "none" else "new_const"
        if eps is None or ep.replace("_const", "") in eps:
            rows.append({"d": d["id"], "ep": ep, "ins": [{"i": i, "v": VL.enc_value(d, v)} for i, v in enumerate(d["const_inputs"])]})
    return rows

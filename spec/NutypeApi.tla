----------------------------- MODULE NutypeApi -----------------------------
(***************************************************************************)
(* C05: safe client code cannot create or mutate a value bypassing the     *)
(* guards.  The generated API is a set of items; each item is described by *)
(* what it can DO (its capability), derived from signature and body, not   *)
(* from its name:                                                          *)
(*   direct      the body applies the tuple constructor `Name(..)`/`Self(..)`*)
(*               or uses it as a value (`.map(Name)`)                       *)
(*   writes_field    the body assigns to / mutably borrows `<expr>.0`       *)
(*   mut_self_param  a parameter (not the receiver) is `&mut Self`/`&mut T` *)
(*   ret_self    the return type mentions the newtype                       *)
(*   calls_ctor  the body calls try_new / new                               *)
(*   recv        "none" | "self" | "&self" | "&mut self"                    *)
(*   ret_mut     the return type contains a mutable reference / pointer     *)
(*   unsafe, const, vis, trait, in_type_impl, field_vis, has_unsafe         *)
(*                                                                         *)
(* DECLARATIVE (ApiOK): the rules every expansion must satisfy, whatever   *)
(* items it consists of - an unknown but harmless item is accepted.        *)
(* OPERATIONAL (OpApi): the items gen_nutype emits for a configuration     *)
(* (common/gen/mod.rs:385-483, new_unchecked.rs, traits.rs); TLC checks    *)
(* OpApi(cfg) satisfies ApiOK for every configuration.                     *)
(***************************************************************************)
EXTENDS Integers, Sequences, FiniteSets, TLC

Ctors == {"try_new", "new", "new_unchecked"}
MutTraits == {"DerefMut", "AsMut", "BorrowMut", "IndexMut"}

\* last path segment of a trait path like `::core::ops::Deref` or `::core::convert::AsRef<str>`
\* (the harness stores it in item.trait_name)

Item(kind, name, vis, recv, trait, flags) ==
  [kind |-> kind, name |-> name, vis |-> vis, recv |-> recv, trait_name |-> trait,
   unsafe |-> "unsafe" \in flags, const |-> "const" \in flags, ret_self |-> "ret_self" \in flags,
   ret_mut |-> "ret_mut" \in flags, direct |-> "direct" \in flags, calls_ctor |-> "calls_ctor" \in flags,
   has_unsafe |-> "has_unsafe" \in flags, in_type_impl |-> "in_type_impl" \in flags,
   field_vis |-> "", for_mut_ref |-> "for_mut_ref" \in flags,
   writes_field |-> "writes_field" \in flags, mut_self_param |-> "mut_self_param" \in flags,
   non_exhaustive |-> "non_exhaustive" \in flags]

Fns(items) == {i \in DOMAIN items : items[i].kind = "fn"}

\* cfg: [vis, new_unchecked (flag written), feature_new_unchecked, type (name)]
RuleNames == <<"constructor_applied_outside_guarded_constructors", "unsafe_code_in_safe_function",
               "new_unchecked_not_unsafe_or_without_flag_and_feature", "new_unchecked_missing",
               "unexpected_unsafe_function", "mutable_access_to_inner_value", "mutable_view_trait",
               "inner_field_visible", "helper_function_visible", "hidden_module_visible", "reexport_visibility",
               "inner_field_written_or_mutably_borrowed", "function_takes_mutable_reference_to_the_type",
               "error_enum_not_exhaustive">>

Rule(n, cfg, items) ==
  CASE n = 1 -> \* the tuple constructor is applied only inside the guarded constructors and the unsafe escape hatch
                \A i \in Fns(items) : items[i].direct => items[i].name \in Ctors
    [] n = 2 -> \* nothing else conjures a value: no unsafe blocks / transmute-like calls in safe functions
                \A i \in Fns(items) : ~(items[i].has_unsafe /\ ~items[i].unsafe)
    [] n = 3 -> \* new_unchecked only with flag and feature, and unsafe
                \A i \in Fns(items) : items[i].name = "new_unchecked" => (items[i].unsafe /\ cfg.new_unchecked /\ cfg.feature_new_unchecked)
    [] n = 4 -> (cfg.new_unchecked /\ cfg.feature_new_unchecked) => \E i \in Fns(items) : items[i].name = "new_unchecked"
    [] n = 5 -> \* any unsafe function of the type other than new_unchecked is suspicious
                \A i \in Fns(items) : (items[i].unsafe /\ items[i].in_type_impl) => items[i].name = "new_unchecked"
    [] n = 6 -> \* no mutable access to the inner value
                \A i \in Fns(items) : items[i].in_type_impl => (items[i].recv # "&mut self" /\ ~items[i].ret_mut)
    [] n = 7 -> \A i \in DOMAIN items : items[i].kind = "impl" =>
                   (items[i].trait_name \notin MutTraits /\ ~(items[i].trait_name = "IntoIterator" /\ items[i].for_mut_ref))
    [] n = 8 -> \A i \in DOMAIN items : (items[i].kind = "struct" /\ items[i].name = cfg.type) => items[i].field_vis = ""
    [] n = 9 -> \A i \in Fns(items) : items[i].name \in {"__sanitize__", "__validate__"} => items[i].vis = ""
    [] n = 10 -> \A i \in DOMAIN items : (items[i].kind = "mod" /\ items[i].name # "tests") => items[i].vis = ""
    [] n = 11 -> \* re-exports carry exactly the declared visibility
                 \A i \in DOMAIN items : (items[i].kind = "use" /\ items[i].in_type_impl) => items[i].vis = cfg.vis
    [] n = 12 -> \* nothing writes to the inner field of an existing value or borrows it mutably (`place.0 = ..`, `&mut self.0`)
                 \A i \in Fns(items) : ~items[i].writes_field
    [] n = 13 -> \* no generated function receives a mutable reference to a value of the type (e.g. an overridden
                 \* `Deserialize::deserialize_in_place(de, place: &mut Self)`), which could only serve to change it
                 \A i \in Fns(items) : ~items[i].mut_self_param
    [] n = 14 -> \* (C07's clause "only declared error variants exist", checked here because it is a fact about the emitted items:)
                 \* a generated enum is exhaustive - `#[non_exhaustive]` would announce variants no validator declares and
                 \* forbid the exhaustive match in other crates
                 \A i \in DOMAIN items : items[i].kind = "enum" => ~items[i].non_exhaustive

Broken(cfg, items) == {n \in DOMAIN RuleNames : ~Rule(n, cfg, items)}
ApiOK(cfg, items) == Broken(cfg, items) = {}

-----------------------------------------------------------------------------
(* OPERATIONAL: the items gen_nutype emits                                 *)

TraitImpl(t) == Item("impl", "", "", "none", t, {"in_type_impl"})

TraitFns(t, validated) ==
  CASE t = "AsRef"   -> <<Item("fn", "as_ref", "", "&self", t, {"in_type_impl"})>>
    [] t = "Deref"   -> <<Item("fn", "deref", "", "&self", t, {"in_type_impl"})>>
    [] t = "Borrow"  -> <<Item("fn", "borrow", "", "&self", t, {"in_type_impl"})>>
    [] t = "Display" -> <<Item("fn", "fmt", "", "&self", t, {"in_type_impl"})>>
    [] t = "From"    -> <<Item("fn", "from", "", "none", t, {"in_type_impl", "ret_self", "calls_ctor"})>>
    [] t = "TryFrom" -> <<Item("fn", "try_from", "", "none", t, {"in_type_impl", "ret_self", "calls_ctor"})>>
    [] t = "FromStr" -> <<Item("fn", "from_str", "", "none", t, {"in_type_impl", "ret_self", "calls_ctor"})>>
    [] t = "Default" -> <<Item("fn", "default", "", "none", t, {"in_type_impl", "ret_self", "calls_ctor"})>>
    [] t = "Serialize" -> <<Item("fn", "serialize", "", "&self", t, {"in_type_impl"})>>
    [] t = "Deserialize" -> <<Item("fn", "deserialize", "", "none", t, {"in_type_impl", "ret_self"}),
                              Item("fn", "visit_newtype_struct", "", "self", "Visitor", {"calls_ctor"})>>
    [] t = "Arbitrary" -> <<Item("fn", "arbitrary", "", "none", t, {"in_type_impl", "ret_self", "calls_ctor"})>>
    [] t = "IntoIterator" -> <<Item("fn", "into_iter", "", "self", t, {"in_type_impl"})>>
    [] t = "Into"    -> <<Item("fn", "from", "", "none", "From", {})>>      \* impl From<Nt> for Inner: consumes
    [] OTHER         -> <<>>

RECURSIVE Flat(_)
Flat(ss) == IF ss = <<>> THEN <<>> ELSE Head(ss) \o Flat(Tail(ss))

OpApi(cfg) ==
  LET ctor == IF cfg.validated THEN "try_new" ELSE "new"
      cf == IF cfg.const_fn THEN {"const"} ELSE {}
      base == << Item("mod", "__nutype_" \o cfg.type \o "__", "", "none", "", {}),
                 [Item("struct", cfg.type, "pub", "none", "", {}) EXCEPT !.field_vis = ""],
                 Item("fn", ctor, "pub", "none", "", {"in_type_impl", "ret_self", "direct"} \cup cf),
                 Item("fn", "__sanitize__", "", "none", "", {"in_type_impl"} \cup cf),
                 Item("fn", "into_inner", "pub", "self", "", {"in_type_impl"} \cup cf),
                 [Item("use", cfg.type, cfg.vis, "none", "", {"in_type_impl"}) EXCEPT !.kind = "use"] >>
      val == IF cfg.validated THEN <<Item("fn", "__validate__", "", "none", "", {"in_type_impl"} \cup cf),
                                     Item("use", cfg.type \o "Error", cfg.vis, "none", "", {"in_type_impl"})>> ELSE <<>>
      nu == IF cfg.new_unchecked /\ cfg.feature_new_unchecked
            THEN <<Item("fn", "new_unchecked", "pub", "none", "", {"in_type_impl", "ret_self", "direct", "unsafe"} \cup cf)>> ELSE <<>>
      perr == IF "FromStr" \in cfg.traits /\ cfg.fam # "string"
              THEN <<Item("use", cfg.type \o "ParseError", cfg.vis, "none", "", {"in_type_impl"})>> ELSE <<>>
      trs == Flat([i \in 1..Len(cfg.trait_seq) |-> <<TraitImpl(cfg.trait_seq[i])>> \o TraitFns(cfg.trait_seq[i], cfg.validated)])
  IN base \o val \o nu \o perr \o trs

=============================================================================

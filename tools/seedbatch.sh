#!/bin/bash
# usage: seedbatch.sh "<name> <patch> <checks...>" ...   (sequential)
HERE="$(cd "$(dirname "$0")" && pwd)"
for spec in "$@"; do
  set -- $spec
  $HERE/seedrun.sh "$@"
  echo "--- $1: $(grep -c '^VIOLATION' /tmp/seedrun_$1.log) violations; $(grep '=== .* exit' /tmp/seedrun_$1.log | tr '\n' ' ')"
done

"""Property checks on observers of obtained values and on text/document entry points:
C04 (Deserialize), C06 (FromStr), C10 (Serialize / round trip), C11 (canonical), C13 (views, comparison)."""
import json
import random

from .common import tier, seed
from . import value_layer as VL
from . import checks_value as CV
from .props_value import run_direct_property
from .values import INT_TYPES, FLOAT_TYPES, f_from_bits, f_class, f_bits as f_bits_

FORMATS = ("json", "ron", "msgpack", "msgpack_named")
POSITIONS = ("top", "vec", "opt", "field", "mapval", "tuple", "mapkey")


def _vals(d, rng, nrandom, cap=None):
    vs = CV.inputs_for(d, rng, nrandom)
    if cap and len(vs) > cap:
        step = len(vs) / float(cap)
        vs = [vs[int(i * step)] for i in range(cap)]
        if d["fam"] == "string":
            vs += [tuple(x) for x in VL.LONG_STRINGS if tuple(x) not in set(vs)]
    return [VL.enc_value(d, v) for v in vs]


# ------------------------------------------------------------------ C11

def rows_canon(d, rng):
    q = tier() == "quick"
    ins = _vals(d, rng, 40 if q else 300)
    rows = [{"d": d["id"], "ep": "canon", "ins": ins}]
    sub = ins if not q else ins[::2]
    if "TryFrom" in d["traits"]:
        rows.append({"d": d["id"], "ep": "canon_tf", "ins": sub})
        rows.append({"d": d["id"], "ep": "canon_via_try_from", "ins": sub})
    if "From" in d["traits"]:
        rows.append({"d": d["id"], "ep": "canon_via_from", "ins": sub})
    if d["fam"] == "string" and "FromStr" in d["traits"]:
        rows.append({"d": d["id"], "ep": "canon_via_from_str", "ins": ins})
    if "Serialize" in d["traits"] and "Deserialize" in d["traits"]:
        rows.append({"d": d["id"], "ep": "canon_via_deser", "ins": sub})
        rows.append({"d": d["id"], "ep": "canon_via_deser_mp", "ins": sub})
        rows.append({"d": d["id"], "ep": "canon_via_deser_seq", "ins": sub})
        rows.append({"d": d["id"], "ep": "canon_via_deser_ronv", "ins": sub})
    if "Display" in d["traits"] and "FromStr" in d["traits"]:
        rows.append({"d": d["id"], "ep": "canon_disp", "ins": sub})
    if "Serialize" in d["traits"] and "Deserialize" in d["traits"]:
        rows.append({"d": d["id"], "ep": "canon_serde", "ins": sub})
        for fmt in ("ron", "msgpack"):
            rows.append({"d": d["id"], "ep": "canon_fmt", "ins": [{"fmt": fmt, "v": v} for v in sub[::3]]})
    return rows


def check_C11():
    q = tier() == "quick"
    sizes = {"int": 50, "float": 40, "string": 80, "any": 30} if q else {"int": 300, "float": 200, "string": None, "any": None}
    # strings: the slice with the idempotent custom sanitizer in every position among the built-ins (quick tier;
    # the thorough slice has all three custom functions)
    return run_direct_property("C11", None, sizes, 0, False, rows_fn=rows_canon, extra_mc=(("MC_HistoryStr", "MC_HistoryStr.cfg"),),
                               cfg_override={"string": "MC_ValueStr_c11.cfg"} if q else None,
                               evidence_extra={"chains": "constructor, TryFrom, Display->FromStr, Serialize->Deserialize (JSON, RON, MessagePack) re-entered with every obtained value; "
                                               "TLC demands the constructor's declarative outcome and, for built-in/idempotent sanitizers, the same value again"})


# ------------------------------------------------------------------ C13

def rows_views(d, rng):
    q = tier() == "quick"
    ins = _vals(d, rng, 30 if q else 200)
    rows = [{"d": d["id"], "ep": "views", "ins": ins}]
    pool = ins if len(ins) <= 14 else [ins[0], ins[-1]] + rng.sample(ins, 12)
    pairs = [[a, b] for a in pool for b in pool]
    # neighbours: adjacent inputs are the likeliest to expose order/equality slips
    pairs += [[ins[i], ins[i + 1]] for i in range(len(ins) - 1)]
    rows.append({"d": d["id"], "ep": "cmp", "ins": pairs})
    return rows


def check_C13():
    q = tier() == "quick"
    sizes = {"int": 40, "float": 40, "string": 50, "any": 30} if q else {"int": 250, "float": 200, "string": 300, "any": None}
    return run_direct_property("C13", None, sizes, 0, False, rows_fn=rows_views, cfg_override={"float": "MC_ValueFloat_c12.cfg"},
                               evidence_extra={"observers": "into_inner, AsRef, Deref, Borrow (String and str), Into, Clone, IntoIterator (by value and by reference), "
                                               "Display under several format specs, address identity of the borrowed views; ==, partial_cmp, cmp, Hash (SipHash and FNV) "
                                               "on pairs of obtained values next to the inner values' answers"})


# ------------------------------------------------------------------ C06

def int_texts(d):
    lo, hi = INT_TYPES[d["ty"]]
    T = set()
    for L in VL.int_landmarks(d):
        for k in (-1, 0, 1):
            T.add(str(L + k))
    T.update([str(lo - 1), str(hi + 1), str(hi) + "0", "9" * 45, "-" + "9" * 45, "+5", "+0", "-0", "00005", "-005",
              " 5", "5 ", "\t5", "5\n", "\u00a05", "0x10", "1_0", "1e1", "5.0", "", "-", "+", "abc", "NaN", "inf",
              "\u0665", "\uff15", "5\u0000", "--5", "+-5", "5-", "1,000",
              # around the limits of the narrower types, whatever the inner type (20-digit numbers that do not fit u64, ...)
              "18446744073709551615", "18446744073709551616", "99999999999999999999", "100000000000000000000",
              "9223372036854775807", "9223372036854775808", "-9223372036854775808", "-9223372036854775809",
              "4294967295", "4294967296", "-2147483649", "340282366920938463463374607431768211455", "170141183460469231731687303715884105727"])
    return sorted(T)


def midpoint_texts(ty, bits):
    """decimal strings right at, just below and just above the rounding midpoint between the pattern and its
    successor: where a parser that rounds twice (e.g. through a wider type) goes wrong."""
    from fractions import Fraction
    if bits < 0 or bits + 1 >= (1 << (32 if ty == "f32" else 64)):
        return []
    a, b = f_from_bits(ty, bits), f_from_bits(ty, bits + 1)
    if f_class(ty, bits) != "num" or f_class(ty, bits + 1) != "num" or a == 0.0 or b == 0.0:
        return []
    mid = (Fraction(a) + Fraction(b)) / 2
    neg = mid < 0
    mid = abs(mid)
    # exact decimal expansion of the midpoint (a dyadic rational), up to 120 significant digits
    ip = mid.numerator // mid.denominator
    frac = mid - ip
    digits = []
    for _ in range(120):
        if frac == 0:
            break
        frac *= 10
        dgt = frac.numerator // frac.denominator
        digits.append(str(dgt))
        frac -= dgt
    base = "%d.%s" % (ip, "".join(digits) or "0")
    if len(base) > 110:
        return []
    sign = "-" if neg else ""
    return [sign + base, sign + base + "1", sign + base[:-1] + str(max(0, int(base[-1]) - 1)) + "9"]


def float_texts(d):
    ty = d["ty"]
    T = set()
    marks = set()
    for r in d["val"]:
        if r["k"] in ("greater", "greater_or_equal", "less", "less_or_equal"):
            marks.add(r["b"])
    marks.update([f_bits_(ty, 1.0), f_bits_(ty, 5.5), f_bits_(ty, 0.1), f_bits_(ty, 1e10)])
    for b in sorted(marks):
        for k in (-1, 0):
            T.update(midpoint_texts(ty, b + k))
    for b in VL.float_inputs(d, random.Random(0), 0):
        c = f_class(ty, b)
        x = f_from_bits(ty, b)
        if c == "num":
            T.add(repr(x))
            T.add("%e" % x)
    T.update(["NaN", "nan", "-NaN", "inf", "-inf", "+inf", "infinity", "-infinity", "Infinity", "INF", "-0", "-0.0", "+0.0",
              "1e400", "-1e400", "1e-400", "1e39", "3.5e38", "5.5", "5.50000000000000001", "5.4999999999999999999", ".5", "5.", "1_0.0",
              "0x1p3", " 5.5", "5.5 ", "\t5.5", "", "-", ".", "e5", "abc", "5,5", "1e", "\u0665.5", "5.5f32", "٥"])
    return sorted(T)


POINT_TEXTS = ["1,2", "2,1", "3,3", "1,1", " 1,2", "1,2 ", "1, 2", "1,2,3", "1", "", ",", "a,b", "1;2", "-1,1", "1,-1", "+1,+2",
               "99999999999,1", "2147483647,-2147483648", "1,2\n", "0x1,2", "1_0,2", "١,٢", "2;1", " 2,1 ", "3;3", "\t1,2"]


def rows_parse(d, rng):
    if d["fam"] == "any":
        texts = list(POINT_TEXTS)
        for _ in range(40 if tier() == "quick" else 1000):
            texts.append("%d,%d" % (rng.randint(-5, 5), rng.randint(-5, 5)))
            texts.append("".join(rng.choice("0123456789,-+ a") for _ in range(rng.randint(1, 6))))
        return [{"d": d["id"], "ep": "parse", "ins": [[ord(c) for c in t] for t in texts]}]
    texts = int_texts(d) if d["fam"] == "int" else float_texts(d)
    pool = "0123456789+-.eE _naifNI\u00a0x"
    n = 60 if tier() == "quick" else 2000
    for _ in range(n):
        texts.append("".join(rng.choice(pool) for _ in range(rng.randint(1, 7))))
    for _ in range(n // 4):
        texts.append("".join(chr(rng.choice([rng.randint(32, 126), rng.randint(0x80, 0x2FFF)])) for _ in range(rng.randint(1, 5))))
    ins = [[ord(c) for c in t] for t in texts]
    return [{"d": d["id"], "ep": "parse", "ins": ins}]


def check_C06():
    q = tier() == "quick"
    sizes = {"int": 70, "float": 60, "any": None} if q else {"int": 400, "float": 400, "any": None}
    return run_direct_property("C06", None, sizes, 0, False, rows_fn=rows_parse, fams=("int", "float", "any"),
                               decl_filter=lambda ad: ad["fam"] != "any" or ad["ty"] in ("Point", "Gen<Point>"),
                               evidence_extra={"texts": "decimal renderings of every landmark and neighbour, MIN-1/MAX+1, overflowing digit runs, signs, "
                                               "ASCII/Unicode whitespace, hex/underscore/exponent forms, NaN/inf/-0/1e400 spellings, non-ASCII digits, random text; "
                                               "each event logs the inner type's own FromStr result (environment) next to the newtype's"})


# ------------------------------------------------------------------ C04 / C10

def raw_docs(d):
    """hand-written documents: wrongly typed payloads, escapes, alternative RON spellings."""
    fam = d["fam"]
    docs = []
    J = ["null", "true", "\"x\"", "5", "-5", "5.5", "[]", "[5]", "{}", "\"\"", "1e400", "340282366920938463463374607431768211456", "-1", "255", "256", "\"5\""]
    if fam == "string":
        J += ["\"a\\\"b\"", "\"\\n\"", "\"\\u00df\"", "\"\\u0130x\"", "\" \\u2003a \"", "\"\\ud83d\\ude00\"", "\"  A  \"", "\"ß\"", "\"\\/\"", "\"a\\tb\""]
    if fam == "any":
        J += ["[1,2]", "[2,1]", "[\"a\"]", "[1,2,3,4]", "[3,3]"]
    for t in J:
        docs.append(("json", "top", {"text": t}))
        docs.append(("json", "vec", {"text": "[%s]" % t}))
        docs.append(("json", "field", {"text": "{\"a\":7,\"f\":%s}" % t}))
        docs.append(("json_reader", "top", {"text": t}))
        docs.append(("json_reader", "mapval", {"text": "{\"k\":%s}" % t}))
    R = ["5", "(5)", "Nt(5)", "Other(5)", "(-5)", "Nt(5.5)", "(\"a\")", "Nt(\" A \")", "Nt(\"a\\tb\")", "Nt(\"\\u{df}\")", "(NaN)", "Nt(inf)", "(-inf)",
         "Nt([1,2])", "([2,1])", "()", "Nt()", "Nt(5,6)", "Some(5)", "Nt(  5  )", "Nt(0x10)", "Nt(1_0)", "Nt(r\"a\")"]
    for t in R:
        docs.append(("ron", "top", {"text": t}))
        docs.append(("ron", "vec", {"text": "[%s]" % t}))
        docs.append(("ron", "opt", {"text": "Some(%s)" % t}))
    M = ["c0", "c3", "05", "fb", "cd0100", "ccff", "d1ff80", "cb7ff8000000000000", "ca7fc00000", "ca7f800000", "cb4016000000000000",
         "a0", "a161", "a2c39f", "a3202061", "90", "9105", "920102", "920201", "c403616263", "d9026162", "cf" + "ff" * 8, "d3" + "80" + "00" * 7]
    for h in M:
        docs.append(("msgpack", "top", {"hex": h}))
        docs.append(("msgpack", "vec", {"hex": "91" + h}))
        docs.append(("msgpack_read", "top", {"hex": h}))
    return docs


def random_json(rng, depth=0):
    """grammar-based random JSON value (text)."""
    r = rng.random()
    if depth > 2 or r < 0.45:
        c = rng.randrange(9)
        if c == 0:
            return str(rng.choice([0, 1, -1, 5, 6, 7, 127, 128, 255, 256, -128, -129, 65535, 2**31, -2**31 - 1, 2**63, 2**64, 10**30]))
        if c == 1:
            return repr(rng.choice([0.0, 0.5, 5.5, -5.5, 1e10, 1e-10, 1e308, 5.0, 6.000001]))
        if c == 2:
            return rng.choice(["1e400", "-1e400", "1E2", "-0", "0.0", "-0.0", "1.0e0"])
        if c == 3:
            return rng.choice(["null", "true", "false"])
        chars = [rng.choice(["a", "A", " ", "ß", "İ", "\\n", "\\t", "\\\"", "\\\\", "\\u00e9", "\\u2003", "é", "1", "\\u0000", "😀", "\\ud83d\\ude00"]) for _ in range(rng.randint(0, 5))]
        return '"' + "".join(chars) + '"'
    if r < 0.75:
        return "[" + ",".join(random_json(rng, depth + 1) for _ in range(rng.randint(0, 3))) + "]"
    keys = ["a", "f", "k", "x"]
    return "{" + ",".join('"%s":%s' % (rng.choice(keys), random_json(rng, depth + 1)) for _ in range(rng.randint(0, 3))) + "}"


def rows_deser(d, rng):
    q = tier() == "quick"
    vals = _vals(d, rng, 10 if q else 80, cap=24 if q else 200)
    ins = []
    keyed = d["fam"] in ("int", "string") and "Ord" in d["traits"]
    for fmt in FORMATS:
        for pos in POSITIONS:
            if pos == "mapkey" and not keyed:
                continue
            sub = vals if pos == "top" else vals[::3]
            for v in sub:
                ins.append({"fmt": fmt, "pos": pos, "val": v})
    for fmt in ("json_reader", "msgpack_read"):
        for v in vals[::2]:
            ins.append({"fmt": fmt, "pos": "top", "val": v})
            ins.append({"fmt": fmt, "pos": "field", "val": v})
    for (fmt, pos, raw) in raw_docs(d):
        ins.append({"fmt": fmt, "pos": pos, "raw": raw})
    # grammar-based random JSON documents and random MessagePack byte strings (differential: reference vs newtype)
    for _ in range(60 if q else 300):
        # a random VALUE in the payload position of a single-element container (one payload per document: the
        # judgement compares it with what the inner type makes of the same payload)
        t = random_json(rng)
        pos = rng.choice(["top", "vec", "field", "mapval"])
        text = {"top": t, "vec": "[%s]" % t, "field": "{\"a\":7,\"f\":%s}" % t, "mapval": "{\"k\":%s}" % t}[pos]
        ins.append({"fmt": "json_reader" if pos == "mapval" else rng.choice(["json", "json_reader"]), "pos": pos, "raw": {"text": text}})
    for _ in range(40 if q else 150):
        hx = "".join("%02x" % rng.choice([rng.randrange(256), 0x91, 0xa1, 0xc0, 0xca, 0xcb, 0xcc, 0xd0, 0x05, 0x81]) for _ in range(rng.randint(1, 10)))
        pos = rng.choice(["top", "vec"])
        ins.append({"fmt": "msgpack" if pos == "vec" else rng.choice(["msgpack", "msgpack_read"]), "pos": pos, "raw": {"hex": ("91" + hx) if pos == "vec" else hx}})
    # routes that do not go through visit_newtype_struct (soundness only, see Trace_Value "deser_any")
    anyins = [{"fmt": fmt, "pos": "top", "val": v} for fmt in ("seq_json", "ron_value") for v in vals]
    return [{"d": d["id"], "ep": "deser", "ins": ins}, {"d": d["id"], "ep": "deser_any", "ins": anyins}]


def check_C04():
    q = tier() == "quick"
    sizes = {"int": 50, "float": 40, "string": 60, "any": 30} if q else {"int": 300, "float": 250, "string": 300, "any": None}
    return run_direct_property("C04", None, sizes, 0, False, rows_fn=rows_deser,
                               evidence_extra={"documents": "formats json (from_str and from_reader), ron, msgpack (compact, named, from_read) x positions top/Vec/Option/struct field/map value/tuple/map key; "
                                               "payloads: serialisations of every probe value by a serde-derived reference newtype plus hand-written wrongly typed, out-of-range, escaped, "
                                               "non-ASCII and alternative-syntax documents; each event logs the reference newtype's result on the same document (differential oracle)"})


def rows_ser(d, rng):
    q = tier() == "quick"
    vals = _vals(d, rng, 20 if q else 200, cap=60 if q else 600)
    fmts = ("json", "ron", "ron_named", "msgpack", "msgpack_named")
    rows = [{"d": d["id"], "ep": "ser", "ins": [{"fmt": f, "v": v} for f in fmts for v in vals]}]
    rows.append({"d": d["id"], "ep": "canon_fmt", "ins": [{"fmt": f, "v": v} for f in fmts for v in vals]})
    return rows


def check_C10():
    q = tier() == "quick"
    sizes = {"int": 50, "float": 50, "string": 60, "any": 30} if q else {"int": 300, "float": 300, "string": 300, "any": None}
    return run_direct_property("C10", None, sizes, 0, False, rows_fn=rows_ser,
                               evidence_extra={"formats": "json, ron, msgpack (compact and named): bytes of the newtype next to bytes of the inner value (json, msgpack) or of a serde-derived "
                                               "newtype of the same name (ron); round trip of every obtained value whose inner value itself round-trips in the format"})


# ------------------------------------------------------------------ C12

def rows_c12(d, rng):
    q = tier() == "quick"
    ins = _vals(d, rng, 60 if q else 600)
    rows = CV.rows_direct(d, rng, 0, eps=None, with_default=True)
    for r in rows:
        if r["ep"] != "default":
            r["ins"] = ins
    texts = ["NaN", "nan", "-NaN", "inf", "-inf", "+inf", "infinity", "-infinity", "1e400", "-1e400", "1e39", "-0", "0", "5.5", "-5.5", "1e-400", "abc", ""]
    rows.append({"d": d["id"], "ep": "parse", "ins": [[ord(c) for c in t] for t in texts]})
    if "Deserialize" in d["traits"]:
        dins = []
        for fmt in ("ron", "msgpack", "msgpack_named", "json"):
            for pos in ("top", "vec", "field"):
                for v in ins[::4]:
                    dins.append({"fmt": fmt, "pos": pos, "val": v})
        for t in ("Nt(NaN)", "(inf)", "Nt(-inf)", "(NaN)", "Nt(1e400)", "Nt(-0.0)", "Nt(5.5)"):
            dins.append({"fmt": "ron", "pos": "top", "raw": {"text": t}})
        for h in ("ca7fc00000", "ca7f800000", "caff800000", "cb7ff8000000000000", "cb7ff0000000000000", "cbfff0000000000000", "ca7fc00001", "cb7ff0000000000001"):
            dins.append({"fmt": "msgpack", "pos": "top", "raw": {"hex": h}})
            dins.append({"fmt": "msgpack", "pos": "vec", "raw": {"hex": "91" + h}})
        rows.append({"d": d["id"], "ep": "deser", "ins": dins})
    if "Ord" in d["traits"]:
        pool = ins if len(ins) <= 24 else rng.sample(ins, 24)
        rows.append({"d": d["id"], "ep": "cmp", "ins": [[a, b] for a in pool for b in pool] + [[ins[i], ins[i + 1]] for i in range(len(ins) - 1)]})
        sorts = [ins, list(reversed(ins))]
        for _ in range(6 if q else 60):
            k = rng.randint(0, min(40, len(ins)))
            sorts.append([rng.choice(ins) for _ in range(k)])
        rows.append({"d": d["id"], "ep": "sort", "ins": sorts})
    rows.append({"d": d["id"], "ep": "canon", "ins": ins[::2]})
    if d.get("const_inputs"):
        ep = "try_new_const" if d["vmode"] != "none" else "new_const"
        rows = [r for r in rows if r["ep"] != ep]
        rows.append({"d": d["id"], "ep": ep, "ins": [{"i": i, "v": VL.enc_value(d, v)} for i, v in enumerate(d["const_inputs"])]})
    return rows


def gate_c12(d):
    """the same float declaration without `finite`: Eq/Ord must then be refused (NaN would be obtainable)."""
    import copy
    if d["fam"] != "float" or not ({"Eq", "Ord"} & set(d["traits"])) or d.get("const_fn"):
        return None
    if not any(r["k"] == "finite" for r in d["val"]) or d["vmode"] != "std":
        return None
    g = copy.deepcopy({k: v for k, v in d.items() if k != "_phi"})
    g["id"] = d["id"] + "_g"
    g["val"] = [r for r in g["val"] if r["k"] != "finite"]
    if not g["val"]:
        g["vmode"] = "none"
    g["minimal_driver"] = True
    # ... and with a custom `with`/`error` validation in place of the built-in rules: a user function proves nothing about NaN
    c = copy.deepcopy(g)
    c["id"] = d["id"] + "_gc"
    c["vmode"] = "custom"
    c["val"] = [{"k": "custom", "b": 0, "fn": "pos", "p": [0], "sp": "lit"}]
    c["dflt"] = []
    c["traits"] = [t for t in c["traits"] if t != "Default"]
    return [g, c]


def check_C12():
    q = tier() == "quick"
    sizes = {"float": 90} if q else {"float": 600}
    return run_direct_property("C12", None, sizes, 0, True, rows_fn=rows_c12, fams=("float",), mc_suffix="c12", sweeps=True, const_twins=True, gate_fn=gate_c12,
                               extra_must=lambda ad: any(t == "Ord" for t in ad["traits"]) and len(ad["val"]) <= 2,
                               evidence_extra={"slice": "f32/f64 declarations with finite (+ optional bounds, every order) deriving PartialEq, Eq, PartialOrd, Ord; "
                                               "every entry point (constructor, TryFrom, FromStr, Deserialize in RON/MessagePack carrying NaN/inf, Default with a NaN default) "
                                               "on NaN payloads, +-inf, +-0.0, subnormals, extremes; cmp/partial_cmp/== on pair grids validated against the rank order; "
                                               "slice::sort, BTreeSet and max under catch_unwind"})

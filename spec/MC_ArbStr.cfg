SPECIFICATION SSpec
CONSTANTS
  Tier = "quick"
  Prim <- SPrim
INVARIANTS
  NoPanic
  Terminates
  EmitDecl
CHECK_DEADLOCK FALSE

SPECIFICATION DSpec
CONSTANTS
  Tier = "thorough"
INVARIANTS
  AgreesWithReference
  EnforcesWritten
  CandidatesAreDisagreements
  GeneratedTestsCatch
  EmitSrc
CHECK_DEADLOCK FALSE

//! Support library for the generated conformance crates.
//!
//! Nothing in here knows anything about nutype. It only provides: value
//! encoding (concrete Rust value -> JSON), outcome encoding, panic capture,
//! an observation log, script reading and small deterministic RNG.
//!
//! Encodings (the Python side turns them into model values):
//!   integer  -> JSON string with the decimal rendering          "-128"
//!   float    -> JSON string "<width>:<hex bits>"                "32:7fc00000"
//!   String   -> JSON array of code points                       [97, 223]
//!   Vec<i32> -> JSON array of decimal strings                   ["1","2"]
//! Outcome:
//!   {"k":"ok","v":V} | {"k":"err","e":"LessViolated"} | {"k":"panic","m":".."} | ...

pub mod probe;
pub mod sweep;
pub use serde;
pub use serde_json;
use serde_json::{json, Value};
use std::io::{BufRead, BufWriter, Write};
use std::panic::{catch_unwind, AssertUnwindSafe};

// ---------------------------------------------------------------- values

pub trait Enc {
    fn enc(&self) -> Value;
}
pub trait Dec: Sized {
    fn dec(v: &Value) -> Self;
}

macro_rules! int_impl {
    ($($t:ty),*) => {$(
        impl Enc for $t { fn enc(&self) -> Value { Value::String(self.to_string()) } }
        impl Dec for $t { fn dec(v: &Value) -> Self {
            v.as_str().expect("int value must be a string").parse::<$t>().expect("int value out of range for type")
        } }
    )*};
}
int_impl!(u8, u16, u32, u64, u128, usize, i8, i16, i32, i64, i128, isize);

impl Enc for f32 {
    fn enc(&self) -> Value {
        Value::String(format!("32:{:08x}", self.to_bits()))
    }
}
impl Enc for f64 {
    fn enc(&self) -> Value {
        Value::String(format!("64:{:016x}", self.to_bits()))
    }
}
impl Dec for f32 {
    fn dec(v: &Value) -> Self {
        let s = v.as_str().expect("float value must be a string");
        let h = s.strip_prefix("32:").expect("f32 value must start with 32:");
        f32::from_bits(u32::from_str_radix(h, 16).expect("bad f32 bits"))
    }
}
impl Dec for f64 {
    fn dec(v: &Value) -> Self {
        let s = v.as_str().expect("float value must be a string");
        let h = s.strip_prefix("64:").expect("f64 value must start with 64:");
        f64::from_bits(u64::from_str_radix(h, 16).expect("bad f64 bits"))
    }
}

impl Enc for String {
    fn enc(&self) -> Value {
        Value::Array(self.chars().map(|c| json!(c as u32)).collect())
    }
}
impl Enc for str {
    fn enc(&self) -> Value {
        Value::Array(self.chars().map(|c| json!(c as u32)).collect())
    }
}
impl Dec for String {
    fn dec(v: &Value) -> Self {
        v.as_array()
            .expect("string value must be an array of code points")
            .iter()
            .map(|c| char::from_u32(c.as_u64().expect("cp") as u32).expect("scalar value"))
            .collect()
    }
}
impl<'a> Enc for std::borrow::Cow<'a, str> {
    fn enc(&self) -> Value {
        self.as_ref().enc()
    }
}
impl<'a> Dec for std::borrow::Cow<'a, str> {
    fn dec(v: &Value) -> Self {
        std::borrow::Cow::Owned(String::dec(v))
    }
}

impl<'a> Enc for std::borrow::Cow<'a, [i32]> {
    fn enc(&self) -> Value {
        self.as_ref().to_vec().enc()
    }
}
impl<'a> Dec for std::borrow::Cow<'a, [i32]> {
    fn dec(v: &Value) -> Self {
        std::borrow::Cow::Owned(<Vec<i32> as Dec>::dec(v))
    }
}

impl<T: Enc> Enc for Vec<T> {
    fn enc(&self) -> Value {
        Value::Array(self.iter().map(|x| x.enc()).collect())
    }
}
impl<T: Dec> Dec for Vec<T> {
    fn dec(v: &Value) -> Self {
        v.as_array().expect("vec value must be an array").iter().map(T::dec).collect()
    }
}
impl<T: Enc> Enc for Option<T> {
    fn enc(&self) -> Value {
        match self {
            None => Value::Array(vec![]),
            Some(x) => Value::Array(vec![x.enc()]),
        }
    }
}
impl<T: Dec> Dec for Option<T> {
    fn dec(v: &Value) -> Self {
        let a = v.as_array().expect("option value must be an array");
        a.first().map(T::dec)
    }
}
impl<T: Enc + ?Sized> Enc for &T {
    fn enc(&self) -> Value {
        (**self).enc()
    }
}

// ---------------------------------------------------------------- outcomes

pub fn ok(v: Value) -> Value {
    json!({"k": "ok", "v": v})
}
pub fn err_dbg<E: std::fmt::Debug>(e: &E) -> Value {
    json!({"k": "err", "e": format!("{:?}", e)})
}
pub fn err_named(kind: &str, e: String) -> Value {
    json!({"k": kind, "e": e})
}
pub fn res<T: Enc, E: std::fmt::Debug>(r: Result<T, E>) -> Value {
    match r {
        Ok(v) => ok(v.enc()),
        Err(e) => err_dbg(&e),
    }
}

/// Run `f`, turning a panic into an outcome value (a panic of the code under
/// test is data, never a tool failure).
pub fn guard<F: FnOnce() -> Value>(f: F) -> Value {
    match catch_unwind(AssertUnwindSafe(f)) {
        Ok(v) => v,
        Err(p) => {
            let msg = if let Some(s) = p.downcast_ref::<&str>() {
                s.to_string()
            } else if let Some(s) = p.downcast_ref::<String>() {
                s.clone()
            } else {
                "<non-string panic>".to_string()
            };
            let first: String = msg.trim().lines().next().unwrap_or("").chars().take(200).collect();
            json!({"k": "panic", "m": first})
        }
    }
}

pub fn silence_panics() {
    std::panic::set_hook(Box::new(|_| {}));
}

// ---------------------------------------------------------------- log / script

pub struct Log {
    w: BufWriter<std::fs::File>,
    pub n: u64,
}
impl Log {
    pub fn create(path: &str) -> Log {
        Log { w: BufWriter::with_capacity(1 << 20, std::fs::File::create(path).expect("create log")), n: 0 }
    }
    pub fn put(&mut self, v: &Value) {
        serde_json::to_writer(&mut self.w, v).expect("write log");
        self.w.write_all(b"\n").expect("write log");
        self.n += 1;
    }
    pub fn obs(&mut self, d: &str, ep: &str, input: Value, out: Value) {
        self.put(&json!({"d": d, "ep": ep, "in": input, "out": out}));
    }
    pub fn obs_x(&mut self, d: &str, ep: &str, input: Value, out: Value, x: Value) {
        self.put(&json!({"d": d, "ep": ep, "in": input, "out": out, "x": x}));
    }
    pub fn finish(mut self) {
        self.w.flush().expect("flush log");
    }
}

pub fn read_script(path: &str) -> Vec<Value> {
    let f = std::fs::File::open(path).expect("open script");
    std::io::BufReader::new(f)
        .lines()
        .map(|l| l.expect("read script"))
        .filter(|l| !l.trim().is_empty())
        .map(|l| serde_json::from_str(&l).expect("script line must be JSON"))
        .collect()
}

/// args: <script.ndjson> <obs.ndjson>
pub fn std_args() -> (String, String) {
    let a: Vec<String> = std::env::args().collect();
    if a.len() < 3 {
        eprintln!("usage: {} <script.ndjson> <obs.ndjson>", a[0]);
        std::process::exit(2);
    }
    (a[1].clone(), a[2].clone())
}

// ---------------------------------------------------------------- rng

/// splitmix64: deterministic, seedable, dependency-free.
pub struct Rng(pub u64);
impl Rng {
    pub fn new(seed: u64) -> Rng {
        Rng(seed ^ 0x9E37_79B9_7F4A_7C15)
    }
    pub fn next(&mut self) -> u64 {
        self.0 = self.0.wrapping_add(0x9E37_79B9_7F4A_7C15);
        let mut z = self.0;
        z = (z ^ (z >> 30)).wrapping_mul(0xBF58_476D_1CE4_E5B9);
        z = (z ^ (z >> 27)).wrapping_mul(0x94D0_49BB_1331_11EB);
        z ^ (z >> 31)
    }
    pub fn below(&mut self, n: u64) -> u64 {
        if n == 0 {
            0
        } else {
            self.next() % n
        }
    }
}

// ---------------------------------------------------------------- hashing helper (C13)

pub fn hash_default<T: std::hash::Hash + ?Sized>(t: &T) -> String {
    use std::hash::Hasher;
    let mut h = std::collections::hash_map::DefaultHasher::new();
    t.hash(&mut h);
    format!("{:016x}", h.finish())
}

/// FNV-1a as a second, structurally different Hasher.
pub struct Fnv(pub u64);
impl std::hash::Hasher for Fnv {
    fn finish(&self) -> u64 {
        self.0
    }
    fn write(&mut self, bytes: &[u8]) {
        for b in bytes {
            self.0 ^= *b as u64;
            self.0 = self.0.wrapping_mul(0x100000001b3);
        }
    }
}
pub fn hash_fnv<T: std::hash::Hash + ?Sized>(t: &T) -> String {
    use std::hash::Hasher;
    let mut h = Fnv(0xcbf29ce484222325);
    t.hash(&mut h);
    format!("{:016x}", h.finish())
}

// ---------------------------------------------------------------- batch runner

pub type CallFn = fn(&str, &Value) -> (Value, Value);

/// One script row = one batch: {"d": id, "ep": entry point, "ins": [input, ...]}.
/// Logs {"d", "ep", "b": [[input, outcome, extra], ...]}.
pub fn run_row(row: &Value, log: &mut Log, call: CallFn) {
    let ep = row["ep"].as_str().expect("row.ep");
    let mut b = Vec::new();
    for inp in row["ins"].as_array().expect("row.ins") {
        let (out, x) = call(ep, inp);
        b.push(json!([inp, out, x]));
    }
    log.put(&json!({"d": row["d"], "ep": ep, "b": b}));
}

// ---------------------------------------------------------------- string environment

/// Observations of std's string primitives (the environment of the
/// specification) on every string reachable from `x` by at most `depth`
/// applications of trim / to_lowercase / to_uppercase / the given custom
/// functions.  The specification composes them; the driver only observes.
pub fn str_env(x: &str, depth: usize, customs: &[fn(String) -> String]) -> Value {
    let mut all: Vec<String> = vec![x.to_string()];
    let mut frontier: Vec<String> = vec![x.to_string()];
    for _ in 0..depth {
        let mut next = Vec::new();
        for s in &frontier {
            let mut outs = vec![s.trim().to_string(), s.to_lowercase(), s.to_uppercase()];
            for f in customs {
                outs.push(f(s.clone()));
            }
            for o in outs {
                if !all.contains(&o) {
                    all.push(o.clone());
                    next.push(o);
                }
            }
        }
        frontier = next;
    }
    let tbl = |f: &dyn Fn(&str) -> String| -> Value {
        Value::Array(all.iter().map(|s| json!([s.enc(), f(s).enc()])).collect())
    };
    json!({
        "trim": tbl(&|s| s.trim().to_string()),
        "lower": tbl(&|s| s.to_lowercase()),
        "upper": tbl(&|s| s.to_uppercase()),
    })
}

// ---------------------------------------------------------------- watchdog

/// Run `f` on its own thread; if it does not finish within `ms` milliseconds the outcome is
/// {"k":"hang"} (the thread is leaked: a non-terminating generator is data, not a tool failure).
pub fn with_timeout<F: FnOnce() -> Value + Send + 'static>(ms: u64, f: F) -> Value {
    let (tx, rx) = std::sync::mpsc::channel();
    std::thread::spawn(move || {
        let v = guard(f);
        let _ = tx.send(v);
    });
    match rx.recv_timeout(std::time::Duration::from_millis(ms)) {
        Ok(v) => v,
        Err(_) => json!({"k": "hang"}),
    }
}

/// contiguous runs [[lo, hi], ..] of a sorted, deduplicated list of integers given as i128
pub fn runs_i128(mut xs: Vec<i128>) -> Vec<(i128, i128)> {
    xs.sort();
    xs.dedup();
    let mut out: Vec<(i128, i128)> = Vec::new();
    for x in xs {
        match out.last_mut() {
            Some((_, hi)) if *hi + 1 == x => *hi = x,
            _ => out.push((x, x)),
        }
    }
    out
}

SPECIFICATION Spec
CONSTANTS
  Types = {"i8", "u8"}
  Tier = "quick"
  DeclSeq <- MCDeclSeq
  InputsOf <- MCInputsOf
  EpsOf <- MCEpsOf
  Prim <- MCPrim
  MEnv = 0
INVARIANTS
  MeetsDeclarative
  FunctionFormAgrees
  WrapsSanitized
  FirstViolated
  NeverWrapsInvalid
  PanicOnlyFromInvalidDefault
  CellLemma
  EmitDecl
CHECK_DEADLOCK FALSE

"""Names shared with the specification (spec/NutypeTypes.tla: Variant)."""
VARIANT = {
    "greater": "GreaterViolated",
    "greater_or_equal": "GreaterOrEqualViolated",
    "less": "LessViolated",
    "less_or_equal": "LessOrEqualViolated",
    "predicate": "PredicateViolated",
    "finite": "FiniteViolated",
    "len_char_min": "LenCharMinViolated",
    "len_char_max": "LenCharMaxViolated",
    "not_empty": "NotEmptyViolated",
    "regex": "RegexViolated",
}
BOUND_KINDS = ("greater", "greater_or_equal", "less", "less_or_equal")

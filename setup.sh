#!/bin/sh
# MANIFEST.setup_cmd: build the framework from files on disk only (offline).
#  - parse every specification module with SANY
#  - pre-build the support crate / helper tools and the dependency crates of the harness workspace
set -e
cd "$(dirname "$0")"
export CARGO_NET_OFFLINE=true
mkdir -p work evidence replays
for m in spec/*.tla; do
  (cd spec && tla-sany "$(basename "$m")") > work/sany.out 2>&1 || { tail -20 work/sany.out; echo "SANY failed on $m"; exit 2; }
done
python3 - <<'PY'
import sys
sys.path.insert(0, "harness/py")
from vh import strenv
from vh.crate import Crate, build_tool, build_many
strenv.verify()
print("setup: StrEnv.tla matches std")
build_tool("vanalyse", "vanalyse")
# warm the shared target dir: the dependency crates of the generated conformance crates
main = lambda ids: "use nutype::nutype;\n#[nutype(derive(Debug))] pub struct W(i32);\nfn main() {}\n"
feats = ["serde", "regex", "arbitrary", "new_unchecked"]
build_many([Crate("warmup", feats, ["serde", "regex", "arbitrary", "serde_json"], {}, main)])
build_many([Crate("warmup_hooks", feats + ["verif_hooks"], ["serde", "regex", "arbitrary"], {}, main)])
print("setup: harness dependencies built")
PY
echo "setup: ok"

------------------------------ MODULE MC_Bound ------------------------------
(* The catalogue of bound spellings of C02, each parsed by the transcribed   *)
(* parser; TLC checks FaithfulBound and lists the spellings where it fails   *)
(* (the candidates, reproduced on the real macro by the harness).            *)
EXTENDS NutypeBound, Json, SequencesExt

A(k, v) == [k |-> k, v |-> v]
Sp(ty, neg, a1, op, a2, name) == [ty |-> ty, neg |-> neg, a1 |-> a1, op |-> op, a2 |-> a2, name |-> name]

IntCatalogue(ty) ==
  { Sp(ty, FALSE, A("lit", 5), "", NoAtom, "lit"),
    Sp(ty, TRUE,  A("lit", 5), "", NoAtom, "neg_lit"),
    Sp(ty, FALSE, A("lit", 10), "", NoAtom, "underscore"),          \* rendered 1_0
    Sp(ty, FALSE, A("const", 5), "", NoAtom, "const"),
    Sp(ty, TRUE,  A("const", 5), "", NoAtom, "neg_const"),           \* -K
    Sp(ty, FALSE, A("parenc", 5), "", NoAtom, "paren_const"),        \* (K)
    Sp(ty, TRUE,  A("paren", 5), "", NoAtom, "neg_paren_lit"),       \* -(5)
    Sp(ty, FALSE, A("paren", 5), "", NoAtom, "paren_lit"),           \* (5)
    Sp(ty, FALSE, A("const", 5), "+", A("lit", 1), "const_plus"),    \* K + 1
    Sp(ty, FALSE, A("const", 1), "<<", A("lit", 3), "const_shl"),    \* ONE << 3
    Sp(ty, FALSE, A("const", 13), "&", A("hexlit", 14), "const_and"),\* M & 0x0e
    Sp(ty, FALSE, A("const", 5), "-", A("lit", 1), "const_minus"),   \* K - 1
    Sp(ty, TRUE,  A("const", 5), "+", A("lit", 1), "neg_const_plus"),\* -K + 1
    Sp(ty, FALSE, A("const", TMinOf(ty)), "", NoAtom, "tmin"),       \* T::MIN
    Sp(ty, FALSE, A("const", TMaxOf(ty)), "", NoAtom, "tmax"),       \* T::MAX
    Sp(ty, FALSE, A("call", 5), "", NoAtom, "call"),                 \* five()
    Sp(ty, FALSE, A("const", 5), "", NoAtom, "const_named_max"),     \* a user constant that happens to be called MAX
    Sp(ty, FALSE, A("const", 3), "", NoAtom, "const_named_min"),     \* ... or MIN
    Sp(ty, FALSE, A("const", 7), "", NoAtom, "path_max"),            \* limits::MAX
    Sp(ty, TRUE,  A("const", 7), "", NoAtom, "neg_path_max"),        \* -limits::MAX
    Sp(ty, FALSE, A("lit", 1), "<<", A("lit", 3), "lit_shl"),        \* 1 << 3
    Sp(ty, FALSE, A("lit", 10), "*", A("const", 5), "lit_mul"),      \* 10 * K
    Sp(ty, FALSE, A("lit", 200), "-", A("lit", 100), "lit_minus"),   \* 200 - 100  (200 does not fit i8)
    Sp(ty, FALSE, A("lit", 7), "-", A("lit", 2), "lit_minus_small"), \* 7 - 2
    Sp(ty, FALSE, A("lit", 255), "&", A("const", 13), "lit_and"),    \* 255 & M
    Sp(ty, FALSE, A("hexlit", 16), "", NoAtom, "hex"),               \* 0x10
    Sp(ty, FALSE, A("suflit", 5), "", NoAtom, "suffixed"),           \* 5i8
    Sp(ty, FALSE, A("fltlit", 5), "", NoAtom, "float_for_int") }     \* 5.0

FloatCatalogue ==
  { Sp("f64", FALSE, A("fltlit", 5), "", NoAtom, "flt"),             \* 5.0
    Sp("f64", TRUE,  A("fltlit", 5), "", NoAtom, "neg_flt"),
    Sp("f64", FALSE, A("lit", 5), "", NoAtom, "int_for_float"),      \* 5
    Sp("f64", FALSE, A("fltlit", 10), "", NoAtom, "exp_float"),      \* 1e1
    Sp("f64", FALSE, A("const", 5), "", NoAtom, "const"),
    Sp("f64", TRUE,  A("const", 5), "", NoAtom, "neg_const"),
    Sp("f64", TRUE,  A("paren", 5), "", NoAtom, "neg_paren_lit"),
    Sp("f64", FALSE, A("const", 5), "+", A("fltlit", 1), "const_plus"),
    Sp("f64", FALSE, A("const", 5), "-", A("fltlit", 1), "const_minus"),
    Sp("f64", FALSE, A("call", 5), "", NoAtom, "call"),
    Sp("f64", FALSE, A("const", 5), "", NoAtom, "const_named_max"),
    Sp("f64", FALSE, A("const", 7), "", NoAtom, "path_max"),
    Sp("f64", FALSE, A("fltlit", 7), "-", A("fltlit", 2), "lit_minus_small") }

Catalogue == IntCatalogue("i8") \cup IntCatalogue("i32") \cup FloatCatalogue
SpSeq == SetToSeq(Catalogue)

\* candidates: spellings the transcribed parser accepts with another value than the one written
KnownUnfaithful == {}      \* the four cursor candidates are repaired (fix 7c2a816)

VARIABLES si, phase, res
bvars == <<si, phase, res>>
SP == SpSeq[si]

BInit == si \in DOMAIN SpSeq /\ phase = "spec_literal" /\ res = [st |-> "none", v |-> 0]

\* SpecLiteral: try `-`? literal, convert
SpecLiteral ==
  /\ phase = "spec_literal"
  /\ IF IsLitTok(SP.a1) /\ LitParses(SP, SP.a1) /\ SP.op = ""      \* fork parsed a literal and `,`/end follows: commit
     THEN phase' = "done" /\ res' = [st |-> "value", v |-> IF SP.neg THEN -SP.a1.v ELSE SP.a1.v]
     ELSE phase' = "fallback_expr" /\ res' = res                   \* fork dropped, cursor untouched
  /\ UNCHANGED si

\* FallbackExpr: parse an expression from the current cursor
FallbackExpr ==
  /\ phase = "fallback_expr"
  /\ res' = OpParse(SP) /\ phase' = "done"
  /\ UNCHANGED si

\* the attribute parser expects `,` or the end after the bound
ExpectComma ==
  /\ phase = "expect_comma"
  /\ res' = (IF SP.op = "" THEN res ELSE [st |-> "reject", v |-> 0]) /\ phase' = "done"
  /\ UNCHANGED si

BSpec == BInit /\ [][SpecLiteral \/ FallbackExpr \/ ExpectComma]_bvars

BDone == phase = "done"
StepFormAgrees == BDone => res = OpParse(SP)
FaithfulOrKnown == BDone => (FaithfulBound(SP) \/ SP.name \in KnownUnfaithful)
CandidatesExact == \A sp \in Catalogue : sp.name \in KnownUnfaithful => ~FaithfulBound(sp)
EmitSp == (phase = "spec_literal") => PrintT(<<"SPELL", si, ToJson([sp |-> SP, denote |-> Denote(SP), op |-> OpParse(SP)])>>)
=============================================================================

#!/bin/bash
# usage: confirm_seed.sh <PROP> <N>     (uses /tmp/seed_<PROP> worktree and /tmp/seed_<PROP>_out/{patch_N.diff,demo_N})
# Confirms: patch applies, workspace tests pass with it, demo fails with it, demo passes without it.
P=$1; N=$2
PFX=${SEED_PREFIX:-seed}; WT=/tmp/${PFX}_$P; OUT=/tmp/${PFX}_${P}_out
LOG=/tmp/confirm_${PFX}_${P}_${N}.log
exec > $LOG 2>&1
cd $WT || exit 2
git checkout -- . ; git status --short
git apply --check $OUT/patch_$N.diff || { echo "RESULT $P $N patch-does-not-apply"; exit 1; }
git apply $OUT/patch_$N.diff
export CARGO_NET_OFFLINE=true
cargo test --workspace --no-fail-fast --offline > /tmp/confirm_${PFX}_${P}_${N}.tests 2>&1
T=$?
FAILS=$(grep -c "^test .* FAILED" /tmp/confirm_${PFX}_${P}_${N}.tests)
PASSED=$(grep "^test result" /tmp/confirm_${PFX}_${P}_${N}.tests | awk '{s+=$4} END {print s}')
echo "tests exit=$T failed=$FAILS passed=$PASSED"
( cd $OUT/demo_$N && bash run.sh ) > /tmp/confirm_${PFX}_${P}_${N}.demo_with 2>&1; DW=$?
git checkout -- .
( cd $OUT/demo_$N && bash run.sh ) > /tmp/confirm_${PFX}_${P}_${N}.demo_without 2>&1; DO=$?
rm -rf $OUT/demo_$N/target
echo "demo with patch exit=$DW ; without patch exit=$DO"
if [ $T -eq 0 ] && [ $DW -ne 0 ] && [ $DO -eq 0 ]; then echo "RESULT $P $N confirmed passed=$PASSED"; else echo "RESULT $P $N NOT-confirmed"; fi

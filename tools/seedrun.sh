#!/bin/bash
# usage: seedrun.sh <name> <patch.diff> <check ids...>
# Runs the given checks against a scratch worktree of /repo with the patch applied
# (separate work/evidence dirs, so it can run next to normal development). Output: /tmp/seedrun_<name>.log
NAME=$1; PATCH=$2; shift 2
WT=/tmp/seedrun_$NAME
LOG=/tmp/seedrun_$NAME.log
git -C /repo worktree remove --force $WT 2>/dev/null
git -C /repo worktree add --detach $WT HEAD -q || exit 2
( cd $WT && git apply $PATCH ) || { echo "patch does not apply" > $LOG; git -C /repo worktree remove --force $WT; exit 2; }
HERE="$(cd "$(dirname "$0")/.." && pwd)"
export VERIF_TLC_CACHE_DIR=/tmp/verif_tlc_cache VERIF_REPO=$WT VERIF_WORK=$HERE/work_seed_$NAME VERIF_EVID=/tmp/seedrun_${NAME}_evid VERIF_REPLAYS=/tmp/seedrun_${NAME}_replays
: > $LOG
for C in "$@"; do
  echo "=== $C" >> $LOG
  ( cd $HERE && ./check $C --tier quick ) 2>&1 | grep -v "^  tlc\|^  build" >> $LOG
  echo "=== $C exit=${PIPESTATUS[0]}" >> $LOG
done
git -C /repo worktree remove --force $WT
rm -rf $HERE/work_seed_$NAME

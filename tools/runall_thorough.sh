#!/bin/bash
# every check in the thorough tier, cheapest first (separate work dir so it can run next to development)
HERE="$(cd "$(dirname "$0")/.." && pwd)"
export VERIF_TLC_CACHE_DIR=/tmp/verif_tlc_cache VERIF_WORK=$HERE/work_thorough VERIF_EVID=/tmp/thorough_evid VERIF_REPLAYS=/tmp/thorough_replays
cd $HERE
for C in ${@:-C14 C15 C08 C02 C05 C16 C07 C12 C09 C06 C13 C11 C10 C04 C03 C01}; do
  s=$(date +%s)
  ./check $C --tier thorough > /tmp/thorough_$C.log 2>&1
  rc=$?
  e=$(date +%s)
  echo "thorough $C exit=$rc $((e-s))s $(grep -c '^VIOLATION' /tmp/thorough_$C.log) violations $(grep -c '^KNOWN' /tmp/thorough_$C.log) known $(grep '^TOOL-ERROR' /tmp/thorough_$C.log | head -1 | cut -c1-200) $(grep 'by tag' /tmp/thorough_$C.log | cut -c1-200)"
done

"""Driver code generation (Rust `call` function per declaration, main.rs) for the run-time layer."""
from .render_value import render_decl_only, inner_type, san_closure

PRELUDE = """#![allow(unused, non_snake_case, non_camel_case_types, clippy::all)]
use super::*;
"""

MAIN_HEAD = """#![allow(unused, non_snake_case, non_camel_case_types, clippy::all)]
use vsupport::*;
use vsupport::serde_json::{json, Value};
use nutype::nutype;
use std::convert::TryFrom;
use std::str::FromStr;
use std::ops::Deref;
"""


PROBE_BOUND = {"Debug": "::core::fmt::Debug", "Clone": "Clone", "Copy": "Copy", "PartialEq": "PartialEq", "Eq": "Eq",
               "Default": "Default", "Display": "::core::fmt::Display"}


def has(d, t):
    return t in d["traits"]


def ntc(d):
    """the concrete instantiation of the newtype used by the driver (a type alias in the module)."""
    return "NtC"


def render_call(d):
    fam = d["fam"]
    inner = d.get("inner_use") or (inner_type(d).replace("T", "i32") if d.get("gen_decl") else inner_type(d))
    T = ntc(d)
    validated = d["vmode"] != "none"
    arms = []

    if fam == "string":
        n_custom = [s for s in d["san"] if s["k"] == "with"]
        customs = ", ".join("(%s) as fn(String) -> String" % san_closure(d, s) for s in n_custom)
        depth = len(d["san"])
        dec = "let x: String = <String as Dec>::dec(inp); let xx = json!({\"env\": str_env(&x, %d, &[%s])});" % (depth, customs)
        arg = "x.clone()"
    else:
        dec = "let x: Inner = <Inner as Dec>::dec(inp); let xx = Value::Null;"
        arg = "x.clone()"

    def direct(ep, expr_ok, expr_res):
        # expr_ok: expression yielding NtC ; expr_res: expression yielding Result<NtC, E>
        if expr_res is not None:
            body = "guard(|| res(%s.map(|t| t.into_inner())))" % expr_res
        else:
            body = "guard(|| ok(%s.into_inner().enc()))" % expr_ok
        arms.append('"%s" => { %s (%s, xx) }' % (ep, dec, body))

    if validated:
        direct("try_new", None, "%s::try_new(%s)" % (T, arg))
    else:
        direct("new", "%s::new(%s)" % (T, arg), None)
    if has(d, "TryFrom"):
        direct("try_from", None, "<%s as TryFrom<Inner>>::try_from(%s)" % (T, arg))
        if fam == "string":
            direct("try_from_ref", None, "<%s as TryFrom<&str>>::try_from(x.as_str())" % T)
    if has(d, "From"):
        direct("from", "<%s as From<Inner>>::from(%s)" % (T, arg), None)
        if fam == "string":
            direct("from_ref", "<%s as From<&str>>::from(x.as_str())" % T, None)
    if fam == "string" and has(d, "FromStr"):
        direct("from_str_s", None, "<%s as FromStr>::from_str(x.as_str())" % T)
    if has(d, "Default") and d["dflt"]:
        env = ""
        if fam == "string":
            n_custom = [s for s in d["san"] if s["k"] == "with"]
            customs = ", ".join("(%s) as fn(String) -> String" % san_closure(d, s) for s in n_custom)
            from .render_value import rust_str
            env = "let xx = json!({\"env\": str_env(%s, %d, &[%s])});" % (rust_str(d["dflt"][0]), len(d["san"]), customs)
        else:
            env = "let xx = Value::Null;"
        arms.append('"default" => { %s (guard(|| ok(<%s as Default>::default().into_inner().enc())), xx) }' % (env, T))
    if fam != "string" and has(d, "FromStr"):
        if validated:
            m = ("match e { NtParseError::Parse(_) => json!({\"k\": \"perr\", \"m\": msg}), "
                 "NtParseError::Validate(e) => json!({\"k\": \"err\", \"e\": format!(\"{:?}\", e), \"m\": msg, \"em\": e.to_string()}) }")
        else:
            m = "match e { NtParseError::Parse(_) => json!({\"k\": \"perr\", \"m\": msg}) }"
        arms.append(
            '"parse" => { let s: String = <String as Dec>::dec(inp); '
            'let inner = s.parse::<Inner>(); '
            'let xx = json!({"inner": match &inner { Ok(v) => json!({"ok": true, "v": [v.enc()]}), Err(_) => json!({"ok": false, "v": []}) }}); '
            '(guard(|| match s.parse::<%s>() { Ok(t) => ok(t.into_inner().enc()), Err(e) => { let msg = e.to_string(); %s } }), xx) }' % (T, m))
    if not d.get("minimal_driver"):
        arms.extend(observer_arms(d, T, validated))
        if d["vmode"] == "std":
            arms.append(msgs_arm(d, T))
    if d.get("const_fn") and d.get("const_inputs"):
        from .render_value import val_src
        cases = []
        for i, v in enumerate(d["const_inputs"]):
            if validated:
                cases.append("%d => res(CK%d.clone().map(|t| t.into_inner()))" % (i, i))
            else:
                cases.append("%d => ok(CK%d.clone().into_inner().enc())" % (i, i))
        arms.append('"%s" => { let i = inp["i"].as_u64().unwrap(); (match i { %s, _ => json!({"k": "noep"}) }, Value::Null) }' % (
            "try_new_const" if validated else "new_const", ", ".join(cases)))
    arms.append('_ => (json!({"k": "noep"}), Value::Null)')
    return "pub fn call(ep: &str, inp: &Value) -> (Value, Value) {\n    match ep {\n        %s\n    }\n}\n" % ",\n        ".join(arms)


def str_env_expr(d, var):
    n_custom = [s for s in d["san"] if s["k"] == "with"]
    customs = ", ".join("(%s) as fn(String) -> String" % san_closure(d, s) for s in n_custom)
    return "str_env(%s, %d, &[%s])" % (var, max(1, len(d["san"])), customs)


def msgs_arm(d, T):
    """C16: Display text of every error variant, the Debug rendering of its bound, and the texts that embed it."""
    from .names import VARIANT
    from .render_value import val_src
    fam = d["fam"]
    items = []
    nconst = 0
    for r in d["val"]:
        v = VARIANT[r["k"]]
        if r["k"] in ("greater", "greater_or_equal", "less", "less_or_equal", "len_char_min", "len_char_max"):
            if r.get("sp", "lit") == "expr":
                nconst += 1
                b = 'format!("{:#?}", B%d)' % nconst
            else:
                lit = val_src(d, r["b"])
                if fam in ("int", "float") and not lit.endswith(")"):
                    lit = "(%s%s)" % (lit, d["ty"]) if not lit.startswith("-") else "(-%s%s)" % (lit[1:], d["ty"])
                b = 'format!("{:#?}", %s)' % lit
        else:
            b = "String::new()"
        pm = "String::new()"
        if fam != "string" and has(d, "FromStr"):
            pm = "NtParseError::Validate(NtError::%s).to_string()" % v
        items.append('json!({"variant": "%s", "text": NtError::%s.to_string(), "bound_dbg": %s, "parse_msg": %s, '
                     '"renderings": [format!("{:.1}", NtError::%s), format!("{:>90}", NtError::%s), format!("{:+.0}", NtError::%s), format!("{:08.3}", NtError::%s)]})' % (v, v, b, pm, v, v, v, v))
    return '"msgs" => (json!({"k": "obs", "msgs": [%s]}), Value::Null)' % ", ".join(items)


def observer_arms(d, T, validated):
    """entry points that observe an obtained value: canon*, views, cmp, ser, deser."""
    fam = d["fam"]
    arms = []
    serde_ok = has(d, "Serialize") and has(d, "Deserialize")
    env_v = ('"env": %s,' % str_env_expr(d, "&v")) if fam == "string" else ""
    # ---- canon: re-enter the constructor (and the other entry points) with a stored value
    steps = {"canon": "res(mk_res(v.clone()))"}
    rts = {"canon": "true"}
    if has(d, "TryFrom"):
        steps["canon_tf"] = "res(<%s as TryFrom<Inner>>::try_from(v.clone()).map(|t| t.into_inner()))" % T
        rts["canon_tf"] = "true"
    if has(d, "Display") and has(d, "FromStr"):
        if fam == "string":
            steps["canon_disp"] = "res(t.to_string().parse::<%s>().map(|t| t.into_inner()))" % T
        else:
            perr = ("match e { NtParseError::Parse(_) => json!({\"k\": \"perr\"}), NtParseError::Validate(e) => err_dbg(&e) }"
                    if validated else "match e { NtParseError::Parse(_) => json!({\"k\": \"perr\"}) }")
            steps["canon_disp"] = "match t.to_string().parse::<%s>() { Ok(t) => ok(t.into_inner().enc()), Err(e) => %s }" % (T, perr)
        rts["canon_disp"] = "v.to_string().parse::<Inner>().map(|w| w.enc() == v.enc()).unwrap_or(false)"
    if serde_ok:
        steps["canon_serde"] = ("match serde_json::to_string(&t) { Ok(s) => match serde_json::from_str::<%s>(&s) { Ok(t) => ok(t.into_inner().enc()), "
                                "Err(e) => probe::classify_de_error(&e.to_string(), &variant_texts(), \"Nt\") }, Err(e) => json!({\"k\": \"sererr\"}) }" % T)
        rts["canon_serde"] = "serde_json::to_string(&v).ok().and_then(|s| serde_json::from_str::<Inner>(&s).ok()).map(|w| w.enc() == v.enc()).unwrap_or(false)"
    if serde_ok:
        arms.append(
            '"canon_fmt" => { let fmt = inp["fmt"].as_str().unwrap(); let x: Inner = <Inner as Dec>::dec(&inp["v"]); match mk(x) { None => (json!({"k": "skip"}), Value::Null), '
            'Some(t) => { let v: Inner = t.clone().into_inner(); '
            'let rt: bool = probe::ser(fmt, &v).ok().and_then(|d| probe::de::<Inner>(fmt, &d).ok()).map(|w| w.enc() == v.enc()).unwrap_or(false); '
            '(guard(|| match probe::ser(fmt, &t) { Ok(doc) => match probe::de::<%s>(fmt, &doc) { Ok(t) => ok(t.into_inner().enc()), '
            'Err(m) => probe::classify_de_error(&m, &variant_texts(), "Nt") }, Err(e) => json!({"k": "sererr"}) }), json!({%s "v": v.enc(), "rt": rt})) } } }' % (T, env_v))
    # values obtained through FromStr / TryFrom / Deserialize (instead of the constructor) are re-entered into the constructor
    creators = {}
    if fam == "string" and has(d, "FromStr"):
        creators["canon_via_from_str"] = "x.parse::<%s>().ok()" % T
    if has(d, "TryFrom"):
        creators["canon_via_try_from"] = "<%s as TryFrom<Inner>>::try_from(x.clone()).ok()" % T
    if has(d, "From"):
        creators["canon_via_from"] = "Some(<%s as From<Inner>>::from(x.clone()))" % T
    if serde_ok:
        creators["canon_via_deser"] = "serde_json::to_string(&x).ok().and_then(|s| serde_json::from_str::<%s>(&s).ok())" % T
        creators["canon_via_deser_mp"] = "probe::ser(\"msgpack\", &x).ok().and_then(|d| probe::de::<%s>(\"msgpack\", &d).ok())" % T
        # values obtained (if at all) on routes that do not go through visit_newtype_struct
        creators["canon_via_deser_seq"] = "serde_json::to_string(&x).ok().and_then(|s| probe::de::<%s>(\"seq_json\", &probe::Doc::Text(s)).ok())" % T
        creators["canon_via_deser_ronv"] = "probe::ser(\"ron\", &refty::Nt(x.clone())).ok().and_then(|d| probe::de::<%s>(\"ron_value\", &d).ok())" % T
    for ep, mkexpr in creators.items():
        arms.append(
            '"%s" => { let x: Inner = <Inner as Dec>::dec(inp); '
            'match ::std::panic::catch_unwind(::std::panic::AssertUnwindSafe(|| %s)).ok().flatten() { None => (json!({"k": "skip"}), Value::Null), '
            'Some(t) => { let v: Inner = t.clone().into_inner(); (guard(|| res(mk_res(v.clone()))), json!({%s "v": v.enc(), "rt": true})) } } }' % (ep, mkexpr, env_v))
    for ep, expr in steps.items():
        arms.append(
            '"%s" => { let x: Inner = <Inner as Dec>::dec(inp); match mk(x) { None => (json!({"k": "skip"}), Value::Null), '
            'Some(t) => { let v: Inner = t.clone().into_inner(); let rt: bool = %s; '
            '(guard(|| %s), json!({%s "v": v.enc(), "rt": rt})) } } }' % (ep, rts[ep], expr, env_v))
    # ---- views
    fields = ['"into_inner": [t.clone().into_inner().enc()]']
    ptrs = []
    if has(d, "AsRef"):
        tgt = "str" if fam == "string" else "Inner"
        fields.append('"as_ref": [<%s as AsRef<%s>>::as_ref(&t).enc()]' % (T, tgt))
        ptrs.append("(<%s as AsRef<%s>>::as_ref(&t) as *const %s as *const u8)" % (T, tgt, tgt))
    if has(d, "Deref"):
        fields.append('"deref": [(&*t).enc()]')
    if has(d, "Borrow"):
        fields.append('"borrow": [<%s as ::std::borrow::Borrow<Inner>>::borrow(&t).enc()]' % T)
        if fam == "string":
            fields.append('"borrow2": [<%s as ::std::borrow::Borrow<str>>::borrow(&t).enc()]' % T)
            ptrs.append("(<%s as ::std::borrow::Borrow<str>>::borrow(&t) as *const str as *const u8)" % T)
        else:
            ptrs.append("(<%s as ::std::borrow::Borrow<Inner>>::borrow(&t) as *const Inner as *const u8)" % T)
    if has(d, "Into"):
        fields.append('"into": [<Inner as From<%s>>::from(t.clone()).enc()]' % T)
    if has(d, "Clone"):
        fields.append('"clone": [t.clone().clone().into_inner().enc()]')
    if has(d, "IntoIterator"):
        fields.append('"iter": [t.clone().into_iter().collect::<Vec<_>>().enc()]')
        fields.append('"iter_ref": [(&t).into_iter().cloned().collect::<Vec<_>>().enc()]')
    if has(d, "Display"):
        if fam == "string":
            specs = ["{}", "{:>8}", "{:<6}|", "{:^7}", "{:.1}", "{:*>5}", "{:?}" if False else "{:3}"]
        elif fam == "int":
            specs = ["{}", "{:>8}", "{:+}", "{:08}", "{:<5}|", "{:^9}"]
        elif fam == "any":
            specs = ["{}", "{:>9}", "{:<7}|", "{:^8}", "{:+}", "{:06}", "{:+07}"]
        else:
            specs = ["{}", "{:.1}", "{:+}", "{:10.3}", "{:08.2}", "{:e}" if False else "{:>12}"]
        pairs = ", ".join('[format!("%s", t).enc(), format!("%s", v).enc()]' % (sp, sp) for sp in specs)
        fields.append('"disp": [%s]' % pairs)
    if len(ptrs) >= 1 and has(d, "Deref") and fam != "string":
        base = "(&*t as *const Inner as *const u8)"
        fields.append('"ptr": [%s]' % ", ".join("%s == %s" % (p, base) for p in ptrs))
    elif len(ptrs) >= 2:
        fields.append('"ptr": [%s]' % ", ".join("%s == %s" % (p, ptrs[0]) for p in ptrs[1:]))
    arms.append(
        '"views" => { let x: Inner = <Inner as Dec>::dec(inp); match mk(x) { None => (json!({"k": "skip"}), Value::Null), '
        'Some(t) => { let v: Inner = t.clone().into_inner(); (guard(|| json!({"k": "obs", %s})), json!({"v": v.enc()})) } } }' % ", ".join(fields))
    # ---- cmp
    cf = []
    if has(d, "PartialEq"):
        cf.append('"eq": ta == tb, "ieq": a == b')
    if has(d, "PartialOrd"):
        cf.append('"pcmp": ord_name(ta.partial_cmp(&tb)), "ipcmp": ord_name(a.partial_cmp(&b))')
    if has(d, "Ord"):
        cf.append('"cmp": ord_name(Some(ta.cmp(&tb)))')
        if not has(d, "PartialOrd"):
            cf.append('"ipcmp": ord_name(a.partial_cmp(&b))')
    if has(d, "Hash"):
        hs = ["hash_default(&ta) == hash_default(&a)", "hash_fnv(&ta) == hash_fnv(&a)"]
        if fam == "string" and has(d, "Borrow"):
            hs.append("hash_default(&ta) == hash_default(<%s as ::std::borrow::Borrow<str>>::borrow(&ta))" % T)
            hs.append("hash_fnv(&ta) == hash_fnv(<%s as ::std::borrow::Borrow<str>>::borrow(&ta))" % T)
        cf.append('"hash": [%s]' % ", ".join(hs))
    arms.append(
        '"cmp" => { let x: Inner = <Inner as Dec>::dec(&inp[0]); let y: Inner = <Inner as Dec>::dec(&inp[1]); '
        'match (mk(x), mk(y)) { (Some(ta), Some(tb)) => { let a: Inner = ta.clone().into_inner(); let b: Inner = tb.clone().into_inner(); '
        '(guard(|| json!({"k": "obs", %s})), json!({"a": a.enc(), "b": b.enc()})) }, _ => (json!({"k": "skip"}), Value::Null) } }' % ", ".join(cf))
    # ---- sort (C12): slice::sort and BTreeSet insertion of obtained values must not panic and must order them
    if has(d, "Ord") and has(d, "Eq"):
        arms.append(
            '"sort" => { let xs: Vec<Inner> = <Vec<Inner> as Dec>::dec(inp); let ts: Vec<%s> = xs.into_iter().filter_map(mk).collect(); '
            'let made: Vec<Inner> = ts.iter().map(|t| t.clone().into_inner()).collect(); '
            '(guard(|| { let mut v = ts.clone(); v.sort(); let set: ::std::collections::BTreeSet<%s> = ts.iter().cloned().collect(); '
            'let mx = ts.iter().cloned().max().map(|t| t.into_inner()); '
            'json!({"k": "ok", "sorted": v.into_iter().map(|t| t.into_inner()).collect::<Vec<_>>().enc(), '
            '"set": set.into_iter().map(|t| t.into_inner()).collect::<Vec<_>>().enc(), "max": mx.enc()}) }), json!({"made": made.enc()})) }' % (T, T))
    # ---- exhaustive sweeps (thorough tier): every value of a 16-bit integer type / every f32 bit pattern
    if d["vmode"] in ("std", "none") and ((fam == "int" and d["ty"] in ("i8", "u8", "i16", "u16")) or (fam == "float" and d["ty"] == "f32")):
        from .names import VARIANT
        names = ", ".join('"%s".to_string()' % VARIANT[r["k"]] for r in d["val"])
        ctor = ("%s::try_new(x).map(|t| t.into_inner()).map_err(|e| variant_index(&e))" % T) if d["vmode"] == "std" else ("Ok::<Inner, usize>(%s::new(x).into_inner())" % T)
        if fam == "int":
            arms.append(
                '"sweep" => { let marks: Vec<Inner> = <Vec<Inner> as Dec>::dec(&inp["marks"]); let names: Vec<String> = vec![%s]; '
                '(sweep::sweep_ints(&marks, (Inner::MIN..=Inner::MAX), &names, |x: Inner| %s), Value::Null) }' % (names, ctor))
        else:
            arms.append(
                '"sweep" => { let marks: Vec<Inner> = <Vec<Inner> as Dec>::dec(&inp["marks"]); let names: Vec<String> = vec![%s]; '
                'let from = inp["from"].as_u64().unwrap(); let to = inp["to"].as_u64().unwrap(); let th = inp["threads"].as_u64().unwrap() as usize; '
                '(sweep::sweep_f32(&marks, from, to, th, &names, |x: Inner| %s), Value::Null) }' % (names, ctor))
    # ---- arbitrary (C09, C14)
    if has(d, "Arbitrary"):
        arms.append(
            '"arb" => { let bytes: Vec<u8> = inp.as_array().unwrap().iter().map(|b| b.as_u64().unwrap() as u8).collect(); '
            '(with_timeout(3000, move || { let mut u = ::arbitrary::Unstructured::new(&bytes); '
            'match <%s as ::arbitrary::Arbitrary>::arbitrary(&mut u) { Ok(t) => ok(t.into_inner().enc()), Err(_) => json!({"k": "aerr"}) } }), Value::Null) }' % T)
        arms.append(
            '"arb_hit" => { let bytes: Vec<u8> = inp["bytes"].as_array().unwrap().iter().map(|b| b.as_u64().unwrap() as u8).collect(); '
            '(with_timeout(3000, move || { let mut u = ::arbitrary::Unstructured::new(&bytes); '
            'match <%s as ::arbitrary::Arbitrary>::arbitrary(&mut u) { Ok(t) => ok(t.into_inner().enc()), Err(_) => json!({"k": "aerr"}) } }), Value::Null) }' % T)
        if fam == "int":
            arms.append(
                '"arb_cover" => { (with_timeout(300000, move || { let mut got: Vec<i128> = Vec::new(); let (mut oks, mut errs, mut panics) = (0u64, 0u64, 0u64); let mut witness = Value::Null; '
                'let mut one = |bytes: &[u8]| { let mut u = ::arbitrary::Unstructured::new(bytes); '
                'let r = ::std::panic::catch_unwind(::std::panic::AssertUnwindSafe(|| <%s as ::arbitrary::Arbitrary>::arbitrary(&mut u).map(|t| t.into_inner()))); '
                'match r { Ok(Ok(v)) => { oks += 1; got.push(v as i128); } Ok(Err(_)) => errs += 1, Err(_) => { panics += 1; if witness.is_null() { witness = json!(bytes); } } } }; '
                'one(&[]); for a in 0..=255u8 { one(&[a]); } for a in 0..=255u8 { for b in 0..=255u8 { one(&[a, b]); } } '
                'let runs: Vec<Value> = runs_i128(got).into_iter().map(|(lo, hi)| json!([lo.to_string(), hi.to_string()])).collect(); '
                'json!({"k": "obs", "runs": runs, "oks": oks, "errs": errs, "panics": panics, "witness": witness}) }), Value::Null) }' % T)
    # ---- ser / deser
    if serde_ok:
        arms.append(
            '"ser" => { let fmt = inp["fmt"].as_str().unwrap(); let x: Inner = <Inner as Dec>::dec(&inp["v"]); '
            'match mk(x) { None => (json!({"k": "skip"}), Value::Null), Some(t) => { let v: Inner = t.clone().into_inner(); '
            'let mine = guard(|| match probe::ser(fmt, &t) { Ok(d) => json!({"k": "ok", "doc": d.repr()}), Err(e) => json!({"k": "sererr", "m": e}) }); '
            'let reference = if fmt.starts_with("ron") { probe::ser(fmt, &refty::Nt(v.clone())) } else { probe::ser(fmt, &v) }; '
            'let rdoc = reference.map(|d| d.repr()).unwrap_or(Value::Null); '
            'let same = mine.get("doc").map(|d| *d == rdoc).unwrap_or(false); '
            '(json!({"k": mine["k"], "same": same, "ref_ok": !rdoc.is_null()}), json!({"v": v.enc(), "doc": mine.get("doc"), "ref": rdoc})) } } }')
        key_arm = ""
        if has(d, "Ord") and has(d, "Eq") and fam in ("int", "string"):
            key_arm = ('if pos == "mapkey" { let doc = if let Some(r) = inp.get("raw") { probe::Doc::from_repr(r) } else { '
                       'let x: Inner = <Inner as Dec>::dec(&inp["val"]); match probe::ser_key(fmt, refty::NtK(x)) { Ok(d) => d, Err(e) => return (json!({"k": "skip", "m": e}), Value::Null) } }; '
                       'let inner = probe::de_key::<refty::NtK>(fmt, &doc).map(|r| r.0); '
                       'let out = guard(|| match probe::de_key::<%s>(fmt, &doc) { Ok(t) => ok(t.into_inner().enc()), Err(m) => probe::classify_de_error(&m, &variant_texts(), "Nt") }); '
                       'return (out, json!({%s "inner": match &inner { Ok(v) => json!({"ok": true, "v": [v.enc()]}), Err(m) => json!({"ok": false, "v": [], "m": m}) }, "doc": doc.repr()})); } ' % (T, "%s"))
            key_arm = key_arm % ('"env": match &inner { Ok(v) => %s, Err(_) => Value::Null },' % str_env_expr(d, "v") if fam == "string" else "")
        env_inner = ('"env": match &inner { Ok(v) => %s, Err(_) => Value::Null },' % str_env_expr(d, "v")) if fam == "string" else ""
        arms.append(
            '"deser" | "deser_any" => { let fmt = inp["fmt"].as_str().unwrap(); let pos = inp["pos"].as_str().unwrap(); %s'
            'let doc = if let Some(r) = inp.get("raw") { probe::Doc::from_repr(r) } else { '
            'let x: Inner = <Inner as Dec>::dec(&inp["val"]); match probe::ser_at(fmt, pos, refty::Nt(x)) { Ok(d) => d, Err(e) => return (json!({"k": "skip", "m": e}), Value::Null) } }; '
            'let inner = probe::de_at::<refty::Nt>(fmt, pos, &doc).map(|r| r.0); '
            'let out = guard(|| match probe::de_at::<%s>(fmt, pos, &doc) { Ok(t) => ok(t.into_inner().enc()), Err(m) => probe::classify_de_error(&m, &variant_texts(), "Nt") }); '
            '(out, json!({%s "inner": match &inner { Ok(v) => json!({"ok": true, "v": [v.enc()]}), Err(m) => json!({"ok": false, "v": [], "m": m}) }, "doc": doc.repr()})) }' % (key_arm, T, env_inner))
    return arms


def render_helpers(d):
    """mk / mk_res / variant_texts / reference serde newtype."""
    T = ntc(d)
    validated = d["vmode"] != "none"
    fam = d["fam"]
    src = ""
    if validated:
        src += "pub fn mk_res(x: Inner) -> Result<Inner, %s> { %s::try_new(x).map(|t| t.into_inner()) }\n" % (
            "CErr" if d["vmode"] == "custom" else "NtError", T)
        src += "pub fn mk(x: Inner) -> Option<%s> { ::std::panic::catch_unwind(::std::panic::AssertUnwindSafe(|| %s::try_new(x).ok())).ok().flatten() }\n" % (T, T)
    else:
        src += "pub fn mk_res(x: Inner) -> Result<Inner, ::core::convert::Infallible> { Ok(%s::new(x).into_inner()) }\n" % T
        src += "pub fn mk(x: Inner) -> Option<%s> { ::std::panic::catch_unwind(::std::panic::AssertUnwindSafe(|| %s::new(x))).ok() }\n" % (T, T)
    if d["vmode"] == "std":
        from .names import VARIANT
        items = ", ".join('("%s".to_string(), NtError::%s.to_string())' % (VARIANT[r["k"]], VARIANT[r["k"]]) for r in d["val"])
        src += "pub fn variant_texts() -> Vec<(String, String)> { vec![%s] }\n" % items
    elif d["vmode"] == "custom":
        names = custom_variant_names(d)
        items = ", ".join('("%s".to_string(), CErr::%s.to_string())' % (n, n) for n in names)
        src += "pub fn variant_texts() -> Vec<(String, String)> { vec![%s] }\n" % items
    else:
        src += "pub fn variant_texts() -> Vec<(String, String)> { vec![] }\n"
    if has(d, "Serialize") and has(d, "Deserialize"):
        extra = ""
        if fam in ("int", "string"):
            extra = "#[derive(serde::Serialize, serde::Deserialize, Debug, Clone, PartialEq, Eq, PartialOrd, Ord)] pub struct NtK(pub Inner);"
            extra = extra.replace("struct NtK", '#[serde(rename = "Nt")] pub struct NtK').replace("pub pub", "pub").replace("] pub #[serde", "] #[serde")
        src += ("pub mod refty { use super::Inner; #[derive(serde::Serialize, serde::Deserialize, Debug, Clone)] pub struct Nt(pub Inner); %s }\n" % extra)
    src += 'pub fn ord_name(o: Option<::std::cmp::Ordering>) -> &\'static str { match o { None => "None", Some(::std::cmp::Ordering::Less) => "Less", Some(::std::cmp::Ordering::Equal) => "Equal", Some(::std::cmp::Ordering::Greater) => "Greater" } }\n'
    return src


def custom_variant_names(d):
    fam, fn = d["fam"], d["val"][0]["fn"]
    if fam == "int" and fn == "pos":
        return ["Zero", "Negative"]
    if fam == "float" and fn == "pos":
        return ["NotANumber", "NotPositive"]
    return ["Empty", "TooLong"]


def render_variant_match(d):
    """C07: the generated error enum has exactly one variant per declared validator.
    An exhaustive match without wildcard over exactly those variants fails to compile
    (E0004 / E0599) when a variant is missing or extra."""
    if d["vmode"] != "std":
        return ""
    from .names import VARIANT
    arms = " ".join("NtError::%s => %d," % (VARIANT[r["k"]], i) for i, r in enumerate(d["val"]))
    return "pub fn variant_index(e: &NtError) -> usize { match e { %s } }\n" % arms


def render_module(d):
    if d.get("module_override"):
        return PRELUDE + d["module_override"]
    src = PRELUDE + render_decl_only(d)
    inner = d.get("inner_use") or (inner_type(d).replace("T", "i32") if d.get("gen_decl") else inner_type(d))
    src += "pub type Inner = %s;\n" % inner
    src += "pub type NtC = Nt%s;\n" % d.get("gen_use", "")
    if d.get("const_fn") and d.get("const_inputs"):
        # the constructor evaluated by rustc's compile-time interpreter (an independent evaluator of the same generated code)
        from .render_value import val_src
        err = "CErr" if d["vmode"] == "custom" else "NtError"
        for i, v in enumerate(d["const_inputs"]):
            lit = val_src(d, v)
            if d["vmode"] == "none":
                src += "pub const CK%d: Nt = Nt::new(%s);\n" % (i, lit)
            else:
                src += "pub const CK%d: Result<Nt, %s> = Nt::try_new(%s);\n" % (i, err, lit)
    if not d.get("minimal_driver"):
        src += render_variant_match(d)
        src += render_helpers(d)
    for t in d.get("probe_traits", []):
        # C02: a written derive must be honoured; the probe fails to compile (mentioning `Probe`) when the impl is missing
        src += "pub struct Probe%s<T: %s>(::core::marker::PhantomData<T>);\npub type UseProbe%s = Probe%s<NtC>;\nconst _: fn() = || { let _ = ::core::mem::size_of::<UseProbe%s>(); };\n" % (t, PROBE_BOUND.get(t, t), t, t, t)
    src += render_call(d)
    return src


def render_main(ids):
    s = MAIN_HEAD
    for k in ids:
        s += '#[path = "d/%s.rs"] mod %s;\n' % (k, k)
    s += "\nfn main() {\n    silence_panics();\n    let (script, obs) = std_args();\n    let rows = read_script(&script);\n    let mut log = Log::create(&obs);\n"
    s += "    for row in &rows {\n        let d = row[\"d\"].as_str().unwrap();\n        let call: CallFn = match d {\n"
    for k in ids:
        s += '            "%s" => %s::call,\n' % (k, k)
    s += "            _ => continue,\n        };\n        run_row(row, &mut log, call);\n    }\n    log.finish();\n}\n"
    return s

---------------------------- MODULE NutypeValue ----------------------------
(***************************************************************************)
(* Run-time layer of the nutype specification: what the code generated for *)
(* one declaration does when a client calls one of its entry points.       *)
(*                                                                         *)
(* Two descriptions of the same behaviour live side by side:               *)
(*                                                                         *)
(*  - DECLARATIVE ("Decl..."): what the properties demand, phrased over    *)
(*    sets ("the value satisfies every validator", "the first violated     *)
(*    rule"), with no reference to how the generated code computes it.     *)
(*  - OPERATIONAL ("Op...", and the step actions at the end): a            *)
(*    transcription of the generated functions: __sanitize__ applies the   *)
(*    sanitizers one by one, __validate__ walks the validators in written  *)
(*    order with an early return, try_new wraps, the derived traits        *)
(*    delegate (common/gen/mod.rs:252-353, */gen/mod.rs, common/gen/       *)
(*    traits.rs).                                                          *)
(*                                                                         *)
(* TLC checks Operational => Declarative exhaustively on bounded domains   *)
(* (MC_Value*.tla); Trace_Value.tla checks recorded executions of the real *)
(* generated code against the declarative side (violations) and the        *)
(* operational side (drift).                                               *)
(*                                                                         *)
(* A declaration is a record                                               *)
(*   [fam    : family,                                                     *)
(*    ty     : inner type name,                                            *)
(*    san    : Seq([k, fn, p]),            sanitizers in written order     *)
(*    vmode  : "none" | "std" | "custom",                                  *)
(*    val    : Seq([k, b, fn, p]),         validators in written order     *)
(*    traits : Seq(STRING),                                                *)
(*    dflt   : <<>> or <<value>>]                                          *)
(***************************************************************************)
EXTENDS NutypeTypes

CONSTANTS
  Prim(_, _, _)    \* Prim(name, string, env): the environment's str::trim /
                   \* to_lowercase / to_uppercase.  MC: tables measured from
                   \* std; trace validation: the observation logged with the event.

-----------------------------------------------------------------------------
(* Float algebra (see NutypeTypes for the representation)                  *)

IsNaN(x)     == x.c = "nan"
IsFiniteF(x) == x.c = "num"
FLt(x, y) == ~IsNaN(x) /\ ~IsNaN(y) /\ x.r <  y.r     \* IEEE `<`
FLe(x, y) == ~IsNaN(x) /\ ~IsNaN(y) /\ x.r <= y.r
FGt(x, y) == FLt(y, x)
FGe(x, y) == FLe(y, x)

Lt(fam, x, y) == IF fam = "float" THEN FLt(x, y) ELSE x <  y
Le(fam, x, y) == IF fam = "float" THEN FLe(x, y) ELSE x <= y

-----------------------------------------------------------------------------
(* Catalogue of user-supplied functions.  The harness renders each id to a *)
(* Rust closure/function and checks the denotation at run time (a failing  *)
(* denotation check is a tool error, not a violation).                     *)

IMax(a, b) == IF a >= b THEN a ELSE b
IMin(a, b) == IF a <= b THEN a ELSE b

NSortSeq(s) ==
  IF s = <<>> THEN <<>>
  ELSE CHOOSE t \in [1..Len(s) -> NRange(s)] :
         /\ \A i \in 1..(Len(s) - 1) : t[i] <= t[i + 1]
         /\ \A v \in NRange(s) : Cardinality({i \in 1..Len(s) : s[i] = v})
                               = Cardinality({i \in 1..Len(t) : t[i] = v})

CustomSan(fam, fn, p, x) ==
  CASE fam = "int" /\ fn = "clamp"    -> IMax(p[1], IMin(p[2], x))          \* |v| v.clamp(lo, hi)
    [] fam = "int" /\ fn = "dbl_sat"  -> IMax(p[1], IMin(p[2], 2 * x))      \* |v| v.saturating_mul(2) ; p = <<MIN, MAX>>
    [] fam = "int" /\ fn = "to_k"     -> IF x = p[1] THEN p[2] ELSE x        \* |v| if v == a { b } else { v }
    [] fam = "float" /\ fn = "clamp"  -> IF IsNaN(x) THEN x                  \* f32::clamp keeps NaN
                                         ELSE IF FLt(x, p[1]) THEN p[1]
                                         ELSE IF FGt(x, p[2]) THEN p[2] ELSE x
    [] fam = "float" /\ fn = "nan_to" -> IF IsNaN(x) THEN p[1] ELSE x        \* |v| if v.is_nan() { k } else { v }
    [] fam = "string" /\ fn = "rev"   -> NReverse(x)                          \* |s| s.chars().rev().collect()
    [] fam = "string" /\ fn = "bang"  -> Append(x, 33)                       \* |mut s| { s.push('!'); s }
    [] fam = "string" /\ fn = "tag_a" -> Append(x, 65)                       \* |mut s| { s.push('A'); s }   (sensitive to a case mapping that runs before / after it)
    [] fam = "string" /\ fn = "take2" -> SubSeq(x, 1, IMin(2, Len(x)))       \* |s| s.chars().take(2).collect()
    [] fam = "any" /\ fn = "sort"     -> NSortSeq(x)                          \* |mut v| { v.sort(); v }
    [] fam = "any" /\ fn = "rev"      -> NReverse(x)
    [] fam = "any" /\ fn = "take2"    -> SubSeq(x, 1, IMin(2, Len(x)))
    [] OTHER -> Assert(FALSE, <<"unknown sanitizer catalogue entry", fam, fn>>)

\* predicates (validator `predicate = ..`) and regex denotations (validator `regex = ..`)
Pred(fam, fn, p, x) ==
  CASE fam = "int" /\ fn = "even"      -> x % 2 = 0                          \* |v| v % 2 == 0
    [] fam = "int" /\ fn = "ne"        -> x # p[1]                           \* |v| *v != k
    [] fam = "float" /\ fn = "not_nan" -> ~IsNaN(x)                          \* |v| !v.is_nan()
    [] fam = "float" /\ fn = "ne"      -> ~(~IsNaN(x) /\ x.r = p[1].r)       \* |v| *v != k  (IEEE !=)
    [] fam = "string" /\ fn = "has_a"  -> NInSeq(97, x)                       \* |s| s.contains('a')
    [] fam = "string" /\ fn = "ascii"  -> \A i \in DOMAIN x : x[i] < 128     \* |s| s.is_ascii()
    [] fam = "string" /\ fn = "re_has_a"   -> NInSeq(97, x)                   \* regex = "a"  (unanchored search)
    [] fam = "string" /\ fn = "re_a_dot"   -> \E i \in DOMAIN x : i < Len(x) /\ x[i] = 97 /\ x[i + 1] # 10   \* regex = "a." (a literal whose only meta character is the dot)
    [] fam = "string" /\ fn = "re_lower"   -> Len(x) > 0 /\ \A i \in DOMAIN x : x[i] \in 97..122   \* regex = "^[a-z]+$"
    [] fam = "string" /\ fn = "re_digits"  -> \A i \in DOMAIN x : x[i] \in 48..57                 \* regex = "^[0-9]*$"
    [] fam = "any" /\ fn = "non_empty" -> Len(x) > 0                         \* |v| !v.is_empty()
    [] fam = "any" /\ fn = "sorted"    -> \A i \in 1..(Len(x) - 1) : x[i] <= x[i + 1]
    [] fam = "any" /\ fn = "short"     -> Len(x) <= 2
    [] fam = "any" /\ fn = "len_le"    -> Len(x) <= p[1]                     \* |v| v.len() <= T::CAP  (depends on the instantiation)
    [] OTHER -> Assert(FALSE, <<"unknown predicate catalogue entry", fam, fn>>)

\* custom validation `with = f, error = E`: "" when valid, else the error
\* value (rendered by Debug) that the user function returns
CustomVal(fam, fn, p, x) ==
  CASE fam = "int" /\ fn = "pos"       -> IF x > 0 THEN "" ELSE IF x = 0 THEN "Zero" ELSE "Negative"
    [] fam = "float" /\ fn = "pos"     -> IF IsNaN(x) THEN "NotANumber"
                                          ELSE IF FGt(x, p[1]) THEN "" ELSE "NotPositive"   \* p[1] = 0.0
    [] fam = "string" /\ fn = "short"  -> IF Len(x) = 0 THEN "Empty" ELSE IF Len(x) > 3 THEN "TooLong" ELSE ""
    [] fam = "any" /\ fn = "short"     -> IF Len(x) = 0 THEN "Empty" ELSE IF Len(x) > 3 THEN "TooLong" ELSE ""
    [] OTHER -> Assert(FALSE, <<"unknown custom validation catalogue entry", fam, fn>>)

-----------------------------------------------------------------------------
(* Sanitizers                                                              *)

ApplySan(fam, s, x, env) ==
  CASE s.k = "trim"      -> Prim("trim", x, env)
    [] s.k = "lowercase" -> Prim("lower", x, env)
    [] s.k = "uppercase" -> Prim("upper", x, env)
    [] s.k = "with"      -> CustomSan(fam, s.fn, s.p, x)

\* "the declared sanitizers applied in declaration order"
RECURSIVE SanFrom(_, _, _, _)
SanFrom(d, i, x, env) ==
  IF i > Len(d.san) THEN x ELSE SanFrom(d, i + 1, ApplySan(d.fam, d.san[i], x, env), env)
SanAll(d, x, env) == SanFrom(d, 1, x, env)

-----------------------------------------------------------------------------
(* DECLARATIVE: satisfaction of one rule.                                  *)
(* nv \in [BoundKinds -> BOOLEAN] is the NaN policy: whether a NaN (as the *)
(* value or as the bound) counts as violating that bound kind.  The        *)
(* properties leave it open (DESIGN.md section 5); it must be one policy.  *)

NanInvolved(fam, r, x) ==
  fam = "float" /\ r.k \in BoundKinds /\ (IsNaN(x) \/ IsNaN(r.b))

Sat(fam, r, x, nv) ==
  CASE r.k \in BoundKinds ->
         (IF NanInvolved(fam, r, x) THEN ~nv[r.k]
          ELSE (CASE r.k = "less"             -> Lt(fam, x, r.b)
                  [] r.k = "less_or_equal"    -> Le(fam, x, r.b)
                  [] r.k = "greater"          -> Lt(fam, r.b, x)
                  [] r.k = "greater_or_equal" -> Le(fam, r.b, x)))
    [] r.k = "finite"       -> IsFiniteF(x)
    [] r.k = "len_char_max" -> Len(x) <= r.b      \* x is a sequence of chars: length in characters
    [] r.k = "len_char_min" -> Len(x) >= r.b
    [] r.k = "not_empty"    -> x # <<>>
    [] r.k = "predicate"    -> Pred(fam, r.fn, r.p, x)
    [] r.k = "regex"        -> Pred(fam, r.fn, r.p, x)

Violated(d, s, nv) == {i \in DOMAIN d.val : ~Sat(d.fam, d.val[i], s, nv)}

\* C01 / C07: Ok(sanitized) iff every validator is satisfied, else the
\* variant of the first violated rule in written order; custom validation
\* returns the user function's error unchanged.
DeclCtor(d, raw, env, nv) ==
  LET s == SanAll(d, raw, env) IN
  CASE d.vmode = "none"   -> OkOut(s)
    [] d.vmode = "std"    -> (LET V == Violated(d, s, nv) IN
                              IF V = {} THEN OkOut(s) ELSE ErrOut(Variant(d.val[NMin(V)].k)))
    [] d.vmode = "custom" -> (LET e == CustomVal(d.fam, d.val[1].fn, d.val[1].p, s) IN
                              IF e = "" THEN OkOut(s) ELSE ErrOut(e))

\* The guarded constructor's name: `new` without validation, `try_new` with.
CtorName(d) == IF d.vmode = "none" THEN "new" ELSE "try_new"

\* Entry points that hand a value of the inner type straight to the
\* constructor (C03: they must agree with it).
DirectEps == {"try_new", "new", "try_from", "from", "try_from_ref", "from_ref", "from_str_s"}

\* Inputs are records [ok, v]: ok = FALSE models "the environment's parser /
\* deserializer for the inner type rejected the text"; v = <<value>>.
In(x)  == [ok |-> TRUE,  v |-> <<x>>]
InFail == [ok |-> FALSE, v |-> <<>>]

DeclCall(d, ep, inp, env, nv) ==
  CASE ep \in DirectEps -> DeclCtor(d, inp.v[1], env, nv)
    [] ep = "default"   -> (LET o == DeclCtor(d, d.dflt[1], env, nv) IN     \* C03
                            IF IsOk(o) THEN o ELSE PanicOut)
    [] ep = "parse"     -> IF inp.ok THEN DeclCtor(d, inp.v[1], env, nv) ELSE ParseErrOut   \* C06
    [] ep = "deser"     -> IF inp.ok THEN DeclCtor(d, inp.v[1], env, nv) ELSE DeErrOut      \* C04

\* Is `out` an outcome the properties allow for this call?  Everything is
\* determined (out = DeclCall) except one case: when the document does not
\* deserialize as the inner type, C04 only demands that deserialization
\* FAILS; which error is reported (the inner type's, the format's, or - when
\* a prefix of the document already yielded an inner value - the
\* validation error for that value) is not prescribed.
DeclOK(d, ep, inp, env, nv, out) ==
  IF ep = "deser" /\ ~inp.ok THEN out.k \in {"derr", "err"}
  ELSE out = DeclCall(d, ep, inp, env, nv)

\* C11 applies to guards whose sanitisation is idempotent by construction: only
\* built-in sanitizers, or a single custom one from the idempotent part of the
\* catalogue.  Validators never change a value, so any of them may be present.
IdemFns == {"clamp", "to_k", "nan_to", "sort", "take2"}
\* ... or one idempotent custom function among built-ins, in a position where the chain as a whole is idempotent:
\* nothing but `trim` after it (a case mapping after a truncation can grow the value again) and, when `trim` is used
\* at all, a `trim` after it (a truncation can expose a trailing space).  MC_ValueStr checks this rule (Canonical).
IdemPipeline(d) ==
  LET idx == {i \in DOMAIN d.san : d.san[i].k = "with"} IN
  /\ Cardinality(idx) = 1
  /\ \A i \in idx :
        /\ d.san[i].fn \in IdemFns
        /\ \A j \in DOMAIN d.san : j > i => d.san[j].k = "trim"
        /\ (\E j \in DOMAIN d.san : d.san[j].k = "trim") => (\E j \in DOMAIN d.san : j > i /\ d.san[j].k = "trim")
Builtin(d) ==
  \/ \A i \in DOMAIN d.san : d.san[i].k \in {"trim", "lowercase", "uppercase"}
  \/ (Len(d.san) = 1 /\ d.san[1].k = "with" /\ d.san[1].fn \in IdemFns)
  \/ IdemPipeline(d)

\* Set of values obtainable through the guarded constructor from `Dom`.
ValidSet(d, Dom, env, nv) == {OutVal(DeclCtor(d, x, env, nv)) : x \in {y \in Dom : IsOk(DeclCtor(d, y, env, nv))}}

-----------------------------------------------------------------------------
(* OPERATIONAL: transcription of the generated code.                       *)

\* One `if <cond> { return Err(..) }` of __validate__
\* (integer/gen/mod.rs:73-118, float/gen/mod.rs:75-128, string/gen/mod.rs:90-161)
OpRejects(fam, r, x) ==
  CASE r.k = "less"             -> IF fam = "float" THEN FGe(x, r.b) ELSE x >= r.b     \* if val >= b
    [] r.k = "less_or_equal"    -> IF fam = "float" THEN FGt(x, r.b) ELSE x >  r.b     \* if val >  b
    [] r.k = "greater"          -> IF fam = "float" THEN FLe(x, r.b) ELSE x <= r.b     \* if val <= b
    [] r.k = "greater_or_equal" -> IF fam = "float" THEN FLt(x, r.b) ELSE x <  r.b     \* if val <  b
    [] r.k = "finite"           -> ~IsFiniteF(x)                                       \* if !val.is_finite()
    [] r.k = "len_char_max"     -> Len(x) > r.b                                        \* chars().count() > max
    [] r.k = "len_char_min"     -> Len(x) < r.b
    [] r.k = "not_empty"        -> Len(x) = 0                                          \* val.is_empty()
    [] r.k = "predicate"        -> ~Pred(fam, r.fn, r.p, x)
    [] r.k = "regex"            -> ~Pred(fam, r.fn, r.p, x)

\* __validate__: walk the validators, return at the first hit
RECURSIVE OpValidateFrom(_, _, _)
OpValidateFrom(d, i, x) ==
  IF i > Len(d.val) THEN ""
  ELSE IF OpRejects(d.fam, d.val[i], x) THEN Variant(d.val[i].k)
  ELSE OpValidateFrom(d, i + 1, x)

OpValidate(d, x) ==
  IF d.vmode = "custom" THEN CustomVal(d.fam, d.val[1].fn, d.val[1].p, x)
  ELSE OpValidateFrom(d, 1, x)

\* try_new / new (common/gen/mod.rs:297-320, 342-352)
OpCtor(d, raw, env) ==
  LET s == SanAll(d, raw, env) IN
  IF d.vmode = "none" THEN OkOut(s)
  ELSE LET e == OpValidate(d, s) IN IF e = "" THEN OkOut(s) ELSE ErrOut(e)

\* derived entry points delegate (common/gen/traits.rs:154-263, 285-393;
\* string/gen/traits/mod.rs:226-280)
OpCall(d, ep, inp, env) ==
  CASE ep \in DirectEps -> OpCtor(d, inp.v[1], env)
    [] ep = "default"   -> (LET o == OpCtor(d, d.dflt[1], env) IN IF IsOk(o) THEN o ELSE PanicOut)  \* unwrap_or_else(panic!)
    [] ep = "parse"     -> IF inp.ok THEN OpCtor(d, inp.v[1], env) ELSE ParseErrOut   \* raw_string.parse().map_err(Parse)?; try_new().map_err(Validate)
    [] ep = "deser"     -> IF inp.ok THEN OpCtor(d, inp.v[1], env) ELSE DeErrOut      \* match Inner::deserialize { Err(e) => return Err(e) }; try_new().map_err(custom)

\* Lemma checked by TLC in MC_Value*: with the code's NaN policy the
\* operational model meets the declarative statement.
CodeNanPolicy == [k \in BoundKinds |-> FALSE]    \* `val >= b` is false for NaN: NaN passes every bound

=============================================================================

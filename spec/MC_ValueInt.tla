---------------------------- MODULE MC_ValueInt ----------------------------
(***************************************************************************)
(* Bounded exhaustive exploration of the run-time layer for the integer    *)
(* family on the fully concrete 8-bit types.  The declaration space is the *)
(* documented grammar: at most one `with` sanitizer, every arrangement of  *)
(* at most one lower bound, one upper bound and one predicate, bounds at   *)
(* every landmark, literal and expression spellings (only expression       *)
(* spellings may contradict each other: the macro rejects contradictory    *)
(* literals, NutypeDecl.tla).  Every value of the type is an input.        *)
(***************************************************************************)
EXTENDS ValueMachine, Json, SequencesExt

CONSTANTS Types, Tier

TMin(ty) == IF ty = "i8" THEN -128 ELSE 0
TMax(ty) == IF ty = "i8" THEN 127 ELSE 255
Dom(ty)  == TMin(ty)..TMax(ty)

Landmarks(ty) ==
  IF Tier \in {"quick", "c07"}
  THEN (IF ty = "i8" THEN {-128, -1, 5, 127} ELSE {0, 5, 255})
  ELSE (IF ty = "i8" THEN {-128, -127, -1, 0, 1, 5, 126, 127} ELSE {0, 1, 5, 100, 254, 255})

Rule(k, b, sp) == [k |-> k, b |-> b, fn |-> "", p |-> <<>>, sp |-> sp]
PredRule(fn, p) == [k |-> "predicate", b |-> 0, fn |-> fn, p |-> p, sp |-> "lit"]

Lowers(ty) == {Rule(k, b, "lit") : k \in {"greater", "greater_or_equal"}, b \in Landmarks(ty)}
Uppers(ty) == {Rule(k, b, "lit") : k \in {"less", "less_or_equal"}, b \in Landmarks(ty)}
Pred1 == PredRule("even", <<>>)

\* literal bounds the macro certainly accepts: a non-empty real interval
Consistent(l, u) == IF l.k = "greater" \/ u.k = "less" THEN l.b < u.b ELSE l.b <= u.b

AsExpr(r) == [r EXCEPT !.sp = "expr"]

\* a lower and an upper bound: literal spelling when consistent, expression
\* spelling (constants the macro cannot evaluate) when they contradict
Pairs(ty) == {IF Consistent(l, u) THEN {l, u} ELSE {AsExpr(l), AsExpr(u)} : l \in Lowers(ty), u \in Uppers(ty)}
Singles(ty) == {{r} : r \in Lowers(ty) \cup Uppers(ty)}

San(fn, p) == [k |-> "with", fn |-> fn, p |-> p]
Clamp(ty) == IF ty = "i8" THEN San("clamp", <<-5, 10>>) ELSE San("clamp", <<3, 10>>)
AllSans(ty) == {<<>>, <<Clamp(ty)>>, <<San("to_k", <<0, 5>>)>>, <<San("dbl_sat", <<TMin(ty), TMax(ty)>>)>>}
FewSans(ty) == {<<>>, <<Clamp(ty)>>}

\* default values: one certainly below / inside / above typical bounds
Defaults(ty) == IF Tier \in {"quick", "c07"} THEN {<<5>>} ELSE {<<5>>, <<TMax(ty)>>}

StdTraits == <<"Debug", "Clone", "Copy", "PartialEq", "Eq", "PartialOrd", "Ord", "Hash",
               "AsRef", "Deref", "Borrow", "Into", "Display", "FromStr", "Default",
               "Serialize", "Deserialize">>

DeclC(conv, ty, san, vmode, val, dflt) ==
  [fam |-> "int", ty |-> ty, san |-> san, vmode |-> vmode, val |-> val,
   traits |-> StdTraits \o (IF vmode = "none" /\ conv = "From" THEN <<"From">> ELSE <<"TryFrom">>),
   dflt |-> dflt]
Decl(ty, san, vmode, val, dflt) == DeclC("From", ty, san, vmode, val, dflt)


CustomVals == {<<[k |-> "custom", b |-> 0, fn |-> "pos", p |-> <<>>, sp |-> "lit"]>>}

\* (rule set, sanitizer sequences) combinations explored
Guards(ty) ==
  IF Tier = "c07"     \* C07 slice: every order of lower + upper + predicate, contradictory bounds included
  THEN {<<S \cup {Pred1}, {<<>>}>> : S \in Pairs(ty)}
  ELSE IF Tier = "quick"
  THEN {<<S, FewSans(ty)>> : S \in Pairs(ty)}
       \cup {<<S, AllSans(ty)>> : S \in Singles(ty) \cup {S \cup {Pred1} : S \in Singles(ty)} \cup {{Pred1}}}
  ELSE {<<S, FewSans(ty)>> : S \in Pairs(ty) \cup {S \cup {Pred1} : S \in Pairs(ty)}}
       \cup {<<S, AllSans(ty)>> : S \in Singles(ty) \cup {S \cup {Pred1} : S \in Singles(ty)} \cup {{Pred1}}}

DeclSpace ==
  UNION {
    UNION {{Decl(ty, san, "std", val, dflt) : san \in g[2], val \in Perms(g[1]), dflt \in Defaults(ty)} : g \in Guards(ty)}
    \cup {Decl(ty, san, "none", <<>>, dflt) : san \in AllSans(ty), dflt \in Defaults(ty)}
    \cup {DeclC("TryFrom", ty, san, "none", <<>>, dflt) : san \in AllSans(ty), dflt \in Defaults(ty)}
    \cup {Decl(ty, san, "custom", val, dflt) : san \in AllSans(ty), val \in CustomVals, dflt \in Defaults(ty)}
  : ty \in Types}

MCDeclSeq == SetToSeq(DeclSpace)

\* conversions are explored on every input for the small guards and on the
\* landmark neighbourhood otherwise (they only delegate; the replay into the
\* real code uses every input for every entry point)
Near(d) == UNION {{r.b - 1, r.b, r.b + 1} : r \in NRange(d.val)} \cup {TMin(d.ty), TMax(d.ty), 0, 5}

MCInputsOf(d, e) ==
  IF e \in {"try_new", "new"} THEN {In(x) : x \in Dom(d.ty)}
  ELSE IF e = "default" THEN {In(0)}
  ELSE {In(x) : x \in Near(d) \cap Dom(d.ty)} \cup (IF e \in {"parse", "deser"} THEN {InFail} ELSE {})

MCEpsOf(d) ==
  {CtorName(d), "default", "parse", "deser"} \cup (IF NInSeq("From", d.traits) THEN {"from"} ELSE {"try_from"})

MCPrim(n, x, env) == x     \* no string primitives in the integer family

\* ---- cell abstraction lemma (justifies the rank projection of wide integer types, DESIGN.md 2.1):
\* for declarations that only COMPARE values (bounds, clamp, to_k, `ne`), two neighbouring values that
\* compare identically with every landmark of the declaration have outcomes of the same kind and the same
\* error, and an accepted value is moved to the same place relative to the landmarks.
OrderOnly(d) ==
  /\ d.vmode # "custom"
  /\ \A i \in DOMAIN d.san : d.san[i].fn \in {"clamp", "to_k"}
  /\ \A i \in DOMAIN d.val : d.val[i].k # "predicate" \/ d.val[i].fn = "ne"
MarksOf(d) == {d.val[i].b : i \in {j \in DOMAIN d.val : d.val[j].k \in BoundKinds}}
               \cup UNION {NRange(d.san[i].p) : i \in DOMAIN d.san} \cup UNION {NRange(d.val[i].p) : i \in DOMAIN d.val}
Sgn(a, b) == IF a < b THEN -1 ELSE IF a = b THEN 0 ELSE 1
SameCell(d, v, w) == \A m \in MarksOf(d) : Sgn(v, m) = Sgn(w, m)
CellLemma ==
  (pc = "idle" /\ OrderOnly(D)) =>
    \A v \in Dom(D.ty) \ {TMax(D.ty)} :
      SameCell(D, v, v + 1) =>
        LET a == DeclCtor(D, v, MEnv, CodeNanPolicy) b == DeclCtor(D, v + 1, MEnv, CodeNanPolicy) IN
        /\ a.k = b.k /\ a.e = b.e
        /\ (IsOk(a) => \A m \in MarksOf(D) : Sgn(OutVal(a), m) = Sgn(OutVal(b), m))

\* one DECL row per declaration, printed from the initial states
EmitDecl == (pc = "idle") => PrintT(<<"DECL", di, ToJson(D)>>)

=============================================================================

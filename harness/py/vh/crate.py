"""Generated conformance crates: writing, building against /repo, verdict attribution, running."""
import json
import os
import re
import shutil
import subprocess
from concurrent.futures import ThreadPoolExecutor

from .common import REPO, WS, WORK, SUPPORT, ToolError, ensure_dir, sh, log, Timer

CARGO_ENV = {"CARGO_NET_OFFLINE": "true", "CARGO_TERM_COLOR": "never"}

NOSTD_DEP_LINES = {
    "serde": 'serde = { version = "1", default-features = false, features = ["alloc"] }',
}

DEP_LINES = {
    "serde": 'serde = { version = "1", features = ["derive"] }',
    "serde_json": 'serde_json = "1"',
    "ron": 'ron = "0.8.1"',
    "rmp-serde": 'rmp-serde = "1.1.2"',
    "arbitrary": 'arbitrary = "1.3.2"',
    "regex": 'regex = "1"',
    "lazy_static": 'lazy_static = "1"',
    "once_cell": 'once_cell = "1"',
    "schemars": 'schemars = "0.8"',
}


def ws_init():
    """(Re)create the harness workspace skeleton (idempotent)."""
    ensure_dir(os.path.join(WS, ".cargo"))
    with open(os.path.join(WS, ".cargo", "config.toml"), "w") as f:
        f.write('[net]\noffline = true\n[build]\ntarget-dir = "../target"\n')
    lock = os.path.join(WS, "Cargo.lock")
    if not os.path.exists(lock):
        shutil.copy(os.path.join(REPO, "Cargo.lock"), lock)
    # the support crate is copied into the workspace (members must live below the root)
    copies = [(SUPPORT, os.path.join(WS, "vsupport"), rel) for rel in ("Cargo.toml", "src/lib.rs", "src/probe.rs", "src/sweep.rs", "src/bin/strenv.rs")]
    copies += [(os.path.join(os.path.dirname(SUPPORT), "analyser"), os.path.join(WS, "vanalyse"), rel) for rel in ("Cargo.toml", "src/main.rs")]
    for (srcdir, dst, rel) in copies:
        a, b = os.path.join(srcdir, rel), os.path.join(dst, rel)
        if not os.path.exists(a):
            continue
        new = open(a).read()
        if not os.path.exists(b) or open(b).read() != new:
            ensure_dir(os.path.dirname(b))
            with open(b, "w") as f:
                f.write(new)


def _ws_manifest():
    members = sorted(d for d in os.listdir(WS)
                     if os.path.isfile(os.path.join(WS, d, "Cargo.toml")))
    with open(os.path.join(WS, "Cargo.toml"), "w") as f:
        f.write("[workspace]\nresolver = \"2\"\nmembers = [%s]\n" % ", ".join(['"%s"' % m for m in members]))
        f.write('\n[profile.dev]\nopt-level = 0\ndebug = 0\nincremental = false\n')
        f.write('\n[profile.release]\nopt-level = 2\ndebug = 0\nincremental = false\ncodegen-units = 16\n')


class Crate:
    """One generated binary (or library) crate with one source file per declaration.

    files: {decl_id: rust source of module file}; `main_rs(ids)` renders main.rs
    for the surviving ids."""

    def __init__(self, name, features, deps, files, main_rs, lib=False, no_default=False, extra_files=None):
        self.name = name
        self.features = features
        self.deps = deps
        self.files = dict(files)
        self.main_rs = main_rs
        self.lib = lib
        self.no_default = no_default
        self.extra_files = extra_files or {}
        self.dir = os.path.join(WS, name)
        self.rejected = {}     # decl id -> list of messages
        self.alive = list(files.keys())

    def write(self):
        ws_init()
        if os.path.isdir(self.dir):
            shutil.rmtree(self.dir)
        ensure_dir(os.path.join(self.dir, "src", "d"))
        feats = ", ".join('"%s"' % f for f in self.features)
        nd = ", default-features = false" if self.no_default else ""
        with open(os.path.join(self.dir, "Cargo.toml"), "w") as f:
            f.write('[package]\nname = "%s"\nversion = "0.0.0"\nedition = "2021"\n\n[dependencies]\n' % self.name)
            f.write('nutype = { path = "%s/nutype"%s, features = [%s] }\n' % (REPO, nd, feats))
            if not self.lib:
                f.write('vsupport = { path = "../vsupport" }\n')
            for d in self.deps:
                # a #![no_std] crate must not pull std in through its dependencies either: with std anywhere in the
                # crate graph, std-only inherent methods (f64::powi, ..) resolve even in a no_std crate
                f.write((NOSTD_DEP_LINES.get(d) if self.no_default and d in NOSTD_DEP_LINES else DEP_LINES[d]) + "\n")
        for k, src in self.files.items():
            with open(os.path.join(self.dir, "src", "d", k + ".rs"), "w") as f:
                f.write(src)
        for rel, src in self.extra_files.items():
            p = os.path.join(self.dir, rel)
            ensure_dir(os.path.dirname(p))
            with open(p, "w") as f:
                f.write(src)
        self._write_main()
        _ws_manifest()

    def _write_main(self):
        with open(os.path.join(self.dir, "src", "lib.rs" if self.lib else "main.rs"), "w") as f:
            f.write(self.main_rs(self.alive))

    def _attribute(self, msg):
        """decl id a diagnostic belongs to: the file of the root of the primary span's expansion chain."""
        spans = msg.get("spans") or []
        prim = [s for s in spans if s.get("is_primary")] or spans
        for s in prim:
            root = s
            while root.get("expansion") and root["expansion"].get("span"):
                root = root["expansion"]["span"]
            for cand in (root, s):
                m = re.search(r"src/d/([A-Za-z0-9_]+)\.rs$", cand.get("file_name", ""))
                if m:
                    return m.group(1)
        # children (notes) may carry the span
        for ch in msg.get("children", []):
            k = self._attribute(ch)
            if k:
                return k
        return None

    def build(self, release=False, max_rounds=6, tests=False):
        """Build, dropping declarations that fail to compile (recorded in self.rejected)."""
        t = Timer()
        for rnd in range(max_rounds):
            cmd = ["cargo", "test" if tests else "build", "--offline", "-p", self.name, "--message-format=json"]
            if tests:
                cmd.append("--no-run")
            if release:
                cmd.append("--release")
            p = subprocess.run(cmd, cwd=WS, env={**os.environ, **CARGO_ENV}, stdout=subprocess.PIPE,
                               stderr=subprocess.PIPE, text=True)
            errs, exe, unattributed = {}, None, []
            for line in p.stdout.splitlines():
                if not line.startswith("{"):
                    continue
                try:
                    o = json.loads(line)
                except ValueError:
                    continue
                if o.get("reason") == "compiler-artifact" and o.get("target", {}).get("name") == self.name:
                    if o.get("executable"):
                        exe = o["executable"]
                if o.get("reason") != "compiler-message":
                    continue
                m = o["message"]
                if m.get("level") != "error":
                    continue
                if m.get("message", "").startswith("aborting due to") or "could not compile" in m.get("message", ""):
                    continue
                k = self._attribute(m)
                if k is None or k not in self.files:
                    unattributed.append(m.get("rendered") or m.get("message"))
                else:
                    code = (m.get("code") or {}).get("code") or ""
                    notes = " | ".join(ch.get("message", "") for ch in m.get("children", []) if ch.get("message"))
                    errs.setdefault(k, []).append((code + " " + m.get("message", "") + ((" || " + notes) if notes else "")).strip())
            if p.returncode == 0:
                self.exe = exe
                log("  build %s: %d decls alive, %d rejected, %d rounds, %.1fs" % (self.name, len(self.alive), len(self.rejected), rnd + 1, t.s()))
                return
            if unattributed and not errs:
                raise ToolError("crate %s failed to build for a reason not attributable to a declaration:\n%s\n%s" % (
                    self.name, "\n".join(unattributed[:5]), p.stderr[-3000:]))
            if not errs:
                raise ToolError("crate %s failed to build:\n%s" % (self.name, p.stderr[-4000:]))
            for k, ms in errs.items():
                self.rejected.setdefault(k, []).extend(ms)
            self.alive = [k for k in self.alive if k not in self.rejected]
            self._write_main()
        raise ToolError("crate %s still failing after %d rounds" % (self.name, max_rounds))

    def run(self, args, timeout=3600, env=None):
        p = subprocess.run([self.exe] + list(args), cwd=self.dir, env={**os.environ, **(env or {})},
                           stdout=subprocess.PIPE, stderr=subprocess.PIPE, text=True, timeout=timeout)
        if p.returncode != 0:
            raise ToolError("driver %s failed (%s):\n%s\n%s" % (self.name, p.returncode, p.stdout[-2000:], p.stderr[-3000:]))
        return p


def build_tool(bin_name, package="vsupport"):
    """build a helper binary of the support / analyser crate; returns its path."""
    ws_init()
    _ws_manifest()
    p = subprocess.run(["cargo", "build", "--offline", "-p", package, "--bin", bin_name, "--message-format=json"],
                       cwd=WS, env={**os.environ, **CARGO_ENV}, stdout=subprocess.PIPE, stderr=subprocess.PIPE, text=True)
    if p.returncode != 0:
        raise ToolError("cannot build tool %s:\n%s" % (bin_name, p.stderr[-3000:]))
    for line in p.stdout.splitlines():
        if line.startswith("{"):
            o = json.loads(line)
            if o.get("reason") == "compiler-artifact" and o.get("executable") and o["target"]["name"] == bin_name:
                return o["executable"]
    raise ToolError("tool %s built but no executable reported" % bin_name)


def build_many(crates, release=False, max_rounds=8, tests=False):
    """Build several generated crates with ONE cargo invocation per round (cargo then compiles them in
    parallel), dropping declarations that fail to compile until everything builds."""
    t = Timer()
    for c in crates:
        c.write()
    by_name = {c.name: c for c in crates}
    pending = list(crates)
    for rnd in range(max_rounds):
        cmd = ["cargo", "test" if tests else "build", "--offline", "--message-format=json"]
        cmd.append("--no-run" if tests else "--keep-going")
        if release:
            cmd.append("--release")
        for c in pending:
            cmd += ["-p", c.name]
        p = subprocess.run(cmd, cwd=WS, env={**os.environ, **CARGO_ENV}, stdout=subprocess.PIPE, stderr=subprocess.PIPE, text=True)
        errs, unattributed, built = {}, [], set()
        for line in p.stdout.splitlines():
            if not line.startswith("{"):
                continue
            try:
                o = json.loads(line)
            except ValueError:
                continue
            if o.get("reason") == "compiler-artifact":
                nm = o.get("target", {}).get("name")
                if nm in by_name:
                    built.add(nm)
                    if o.get("executable"):
                        by_name[nm].exe = o["executable"]
                    if tests and o.get("profile", {}).get("test") and o.get("executable"):
                        by_name[nm].test_exe = o["executable"]
                continue
            if o.get("reason") != "compiler-message":
                continue
            m = o["message"]
            if m.get("level") != "error":
                continue
            if m.get("message", "").startswith("aborting due to") or "could not compile" in m.get("message", ""):
                continue
            nm = o.get("target", {}).get("name")
            c = by_name.get(nm)
            k = c._attribute(m) if c else None
            if c is None or k is None or k not in c.files:
                unattributed.append((nm, m.get("rendered") or m.get("message")))
            else:
                code = (m.get("code") or {}).get("code") or ""
                notes = " | ".join(ch.get("message", "") for ch in m.get("children", []) if ch.get("message"))
                errs.setdefault(nm, {}).setdefault(k, []).append((code + " " + m.get("message", "") + ((" || " + notes) if notes else "")).strip())
        failing = [c for c in pending if c.name in errs]
        if unattributed and not failing:
            raise ToolError("build failed for a reason not attributable to a declaration:\n%s\n%s" % (
                "\n".join("%s: %s" % u for u in unattributed[:5]), p.stderr[-2000:]))
        if p.returncode == 0 or not failing:
            if p.returncode != 0:
                raise ToolError("cargo failed without attributable errors:\n%s" % p.stderr[-3000:])
            log("  build %d crates: %d decls alive, %d rejected, %d rounds, %.1fs" % (
                len(crates), sum(len(c.alive) for c in crates), sum(len(c.rejected) for c in crates), rnd + 1, t.s()))
            return
        for c in failing:
            for k, ms in errs[c.name].items():
                c.rejected.setdefault(k, []).extend(ms)
            c.alive = [k for k in c.alive if k not in c.rejected]
            c._write_main()
        pending = failing if not unattributed else pending
    raise ToolError("crates still failing after %d rounds" % max_rounds)


def shard(items, n):
    items = list(items)
    out = [[] for _ in range(max(1, n))]
    for i, it in enumerate(items):
        out[i % len(out)].append(it)
    return [s for s in out if s]


def build_all(crates, release=False):
    """cargo serialises on the target-dir lock, so build sequentially; cargo itself is parallel."""
    for c in crates:
        c.write()
    for c in crates:
        c.build(release=release)


def run_all(crates, argv_of, timeout=3600):
    with ThreadPoolExecutor(max_workers=16) as ex:
        futs = [ex.submit(c.run, argv_of(c), timeout) for c in crates]
        return [f.result() for f in futs]

"""Checks on the expansion-time layer (NutypeDecl / MC_Decl / Trace_Decl): C08, C02 (verdict part)."""
import json
import os
import random

from .common import WORK, ToolError, Verdict, Timer, ensure_dir, seed, tier, log
from .crate import Crate, shard, build_many
from .render_decl import render_src, decl_only
from .tlc import run_tlc, json_rows, validate_trace

FEAT_DEPS = {"serde": ["serde"], "regex": ["regex"], "arbitrary": ["arbitrary"], "schemars08": ["schemars", "serde_json"], "new_unchecked": []}


def main_rs(ids):
    s = "#![allow(unused, non_snake_case, non_camel_case_types, dead_code)]\n"
    for k in ids:
        s += '#[path = "d/%s.rs"] mod %s;\n' % (k, k)
    s += "fn main() {}\n"
    return s


def mc_decl_rows():
    T = tier()
    r = run_tlc("MC_Decl", "MC_Decl_%s.cfg" % T, "mc_decl_" + T, workers=16)
    rows = {("s%05d" % i): obj for (i, obj) in json_rows(r, "DECL")}
    if not rows:
        raise ToolError("MC_Decl emitted no declarations")
    return r, rows


def slice_of(obj):
    """coarse slice tag of a surface declaration, for sampling and evidence."""
    src = obj["src"]
    kinds = [b["bk"] for b in src["blocks"]]
    if obj.get("g"):
        return "G"       # what only the generated unit tests can catch: never sampled away
    if src["tparams"] and (len(src["tparams"]) > 1 or ":" in src["tparams"][0] or src["tparams"][0].startswith("'")
                           or "sanitize" in kinds or "new_unchecked" in kinds):
        return "L"
    if src["name"] != "Nt" or src["tparams"]:
        return "N"
    if src["fieldvis"] or src["outer"] or src["shape"] != "tuple":
        return "M"
    if len(set(kinds)) != len(kinds):
        return "R"
    if "derive" in kinds and len(src["blocks"]) <= 3 and all(len(b["val"]) <= 2 for b in src["blocks"]):
        der = [b for b in src["blocks"] if b["bk"] == "derive"][0]["der"]
        if sorted(src["feats"]) == sorted(["serde", "regex", "arbitrary", "new_unchecked", "schemars08"]) and der:
            return "T"
    return "X"


def lib_rs_nostd(ids):
    s = "#![no_std]\n#![allow(unused, non_snake_case, non_camel_case_types, dead_code)]\nextern crate alloc;\n"
    for k in ids:
        s += '#[path = "d/%s.rs"] pub mod %s;\n' % (k, k)
    return s


def build_verdicts(name, rows, nshards=8, nostd=False, also_tests=False):
    """rows: {id: obj}. Build every declaration against /repo; returns {id: ("accepted"|"rejected", messages)}."""
    groups = {}
    for k, obj in rows.items():
        feats = tuple(sorted(obj["src"]["feats"]))
        groups.setdefault(feats, []).append(k)
    crates = []
    for gi, (feats, ids) in enumerate(sorted(groups.items())):
        deps = sorted(set(d for f in feats for d in FEAT_DEPS[f]))
        n = max(1, min(nshards, len(ids) // 40))
        for si, part in enumerate(shard(ids, n)):
            files = {k: render_src(rows[k]["src"], nostd=nostd) for k in part}
            if nostd:
                crates.append(Crate("%s_g%d_s%d" % (name, gi, si), list(feats), deps, files, lib_rs_nostd, lib=True, no_default=True))
            else:
                crates.append(Crate("%s_g%d_s%d" % (name, gi, si), list(feats), deps, files, main_rs))
    # one cargo invocation per feature set: packages built together get their dependency features unified
    by_feats = {}
    for c in crates:
        by_feats.setdefault(tuple(c.features), []).append(c)
    for feats, cs in sorted(by_feats.items()):
        build_many(cs)
    if also_tests:
        # the same crates once more as test targets: the generated #[cfg(test)] modules are part of the expansion
        for feats, cs in sorted(by_feats.items()):
            build_many(cs, tests=True)
    out = {}
    for c in crates:
        for k in c.files:
            out[k] = ("rejected", c.rejected[k][:4]) if k in c.rejected else ("accepted", [])
    return out


def run_generated_tests(name, rows):
    """build the declarations as a test target and run the unit tests nutype generated.
    returns {id: [[test name, "ok"|"FAILED"], ...]}"""
    import re
    import subprocess
    ids = sorted(rows)
    if not ids:
        return {}
    files = {k: render_src(rows[k]["src"]) for k in ids}
    feats = sorted(set(f for k in ids for f in rows[k]["src"]["feats"]))
    deps = sorted(set(d for f in feats for d in FEAT_DEPS[f]))
    c = Crate(name + "_tests", feats, deps, files, main_rs)
    build_many([c], tests=True)
    exe = getattr(c, "test_exe", None)
    if not exe:
        raise ToolError("no test executable for %s" % c.name)
    p = subprocess.run([exe, "--test-threads", "8"], stdout=subprocess.PIPE, stderr=subprocess.PIPE, text=True)
    out = {k: [] for k in c.alive}
    for line in p.stdout.splitlines():
        m = re.match(r"^test (s\d+)::__nutype_\w+__::tests::(\w+) \.\.\. (ok|FAILED)", line)
        if m and m.group(1) in out:
            out[m.group(1)].append([m.group(2), m.group(3)])
    run_generated_tests.rejected = dict(c.rejected)      # accepted by `cargo build`, but the test target does not compile
    return out


def tags_of(obj):
    src = obj["src"]
    tags = []
    if obj.get("capture"):
        tags.append("name_capture")
    for b in src["blocks"]:
        lows = [v for v in b["val"] if v["w"] in ("greater", "greater_or_equal")]
        ups = [v for v in b["val"] if v["w"] in ("less", "less_or_equal")]
        for l in lows:
            for u in ups:
                if l["sp"] == "lit" and u["sp"] == "lit" and l["b"] == u["b"] and (l["w"] == "greater") != (u["w"] == "less"):
                    tags.append("equal_bounds_one_exclusive")
    if src["tparams"] and any("Into" in b["der"] for b in src["blocks"]):
        tags.append("into_generic")
    return tags


def tests_tag(obj, bad):
    if not bad.get("tests_bad"):
        return None
    src = obj["src"]
    for b in src["blocks"]:
        lows = [v for v in b["val"] if v["w"] in ("greater", "greater_or_equal")]
        ups = [v for v in b["val"] if v["w"] in ("less", "less_or_equal")]
        for l in lows:
            for u in ups:
                if l["b"] == u["b"] and ((l["w"] == "greater") or (u["w"] == "less")) and bad.get("must_fail"):
                    return "generated_test_ignores_exclusivity"
    return "generated_tests"


def check_C08():
    t = Timer()
    T = tier()
    rng = random.Random(seed())
    verdict = Verdict("C08")
    r, rows = mc_decl_rows()
    by_slice = {}
    for k, obj in rows.items():
        by_slice.setdefault(slice_of(obj), []).append(k)
    chosen = []
    for sl, ids in sorted(by_slice.items()):
        ids = sorted(ids)
        cap = 700 if sl == "T" else (450 if sl == "L" else None)
        if T == "quick" and cap and len(ids) > cap:
            # shapes of repaired defects are always replayed (Arbitrary / Into on bounded generics: 6f20365, c0c4844)
            keep = [k for k in ids if sl == "L" and rows[k]["class"] == "accept"
                    and any(t in ("Arbitrary", "Into") for b in rows[k]["src"]["blocks"] for t in b["der"])]
            rest = [k for k in ids if k not in set(keep)]
            ids = keep + rng.sample(rest, max(0, cap - len(keep)))
        chosen.extend(ids)
    sel = {k: rows[k] for k in chosen}
    verdicts = build_verdicts("c08", sel)
    g_rows = {k: sel[k] for k in sel if sel[k].get("g") and verdicts[k][0] == "accepted"}
    gen_tests = run_generated_tests("c08", g_rows)
    for k, msgs in sorted(getattr(run_generated_tests, "rejected", {}).items()):
        # an accepted, well-formed declaration must also be usable under `cargo test`: the unit tests the macro generates
        # into the user's crate have to compile
        if k in g_rows and g_rows[k]["class"] == "accept":
            src = g_rows[k]["src"]
            verdict.violation({"property": "C08", "decl": k, "family": src["fam"], "class": "accept", "verdict": "generated tests do not compile",
                               "tag": "generated_tests_do_not_compile", "compiler_messages": msgs[:4], "declaration": decl_only(src),
                               "summary": "%s: accepted, but the generated unit tests do not compile (%s) :: %s" % (
                                   k, "; ".join(m[:100] for m in msgs[:1]), decl_only(src).strip().replace("\n", " ")[:220])})
    tdir = ensure_dir(os.path.join(WORK, "trace", "c08"))
    tp, dp = os.path.join(tdir, "trace.ndjson"), os.path.join(tdir, "decls.json")
    order = sorted(sel)
    with open(tp, "w") as f:
        for k in order:
            f.write(json.dumps({"d": k, "verdict": verdicts[k][0], "capture": bool(sel[k].get("capture")),
                                "ran_tests": k in gen_tests, "tests": gen_tests.get(k, [])}) + "\n")
    with open(dp, "w") as f:
        json.dump({k: sel[k]["src"] for k in order}, f)
    summary, bad, drift, tr = validate_trace("Trace_Decl", "Trace_Decl.cfg", "trace_c08", tp, dp)
    verdict.drift += len(drift)
    for (l, _i, obj) in drift[:6]:
        k = order[l - 1]
        verdict.notes.append("drift: %s real=%s model=%s :: %s" % (k, obj["verdict"], obj["op"] or "accepted", decl_only(sel[k]["src"]).strip().replace("\n", " ")[:200]))
    for (l, _i, obj) in bad:
        k = order[l - 1]
        src = sel[k]["src"]
        tags = tags_of(sel[k])
        tt = tests_tag(sel[k], obj)
        if tt:
            tags = [tt]
        rec = {"property": "C08", "generated_tests": obj.get("tests"), "must_fail_a_generated_test": obj.get("must_fail"), "decl": k, "family": src["fam"], "class": obj["class"], "verdict": obj["verdict"],
               "model_verdict": obj["op"] or "accepted", "tag": tags[0] if tags else "", "tags": tags,
               "type_name": src["name"], "tparams": src["tparams"], "features": sorted(src["feats"]),
               "compiler_messages": verdicts[k][1], "declaration": decl_only(src),
               "summary": "%s: reference predicate says %s, real verdict %s (%s) :: %s" % (
                   k, obj["class"], obj["verdict"], "; ".join(m[:80] for m in verdicts[k][1][:1]),
                   decl_only(src).strip().replace("\n", " ")[:220])}
        verdict.violation(rec)
    classes = {}
    for k in order:
        key = "%s/%s" % (sel[k]["class"], verdicts[k][0])
        classes[key] = classes.get(key, 0) + 1
    cov = {"states": r.distinct + tr.distinct, "transitions": r.generated + tr.generated,
           "traces_validated_against_impl": summary["events"],
           "declarations_enumerated_by_tlc": len(rows), "declarations_built": len(order),
           "by_slice": {sl: len(ids) for sl, ids in by_slice.items()},
           "reference_class_vs_real_verdict": classes, "declarations_whose_generated_tests_were_run": len(gen_tests),
           "evaluations": len(order), "distinct_nontrivial": len(order),
           "rule": "every declaration of the slices T (traits), B (bounds), S (string rules), F (features), N (names), M (struct shape/attributes), "
                   "V (validate block shapes), R (repeated blocks) enumerated by TLC is rendered, built against /repo under its feature set, and its "
                   "compile verdict is validated by TLC against the reference predicate Class",
           "samples": [{"declaration": decl_only(sel[order[0]]["src"]).strip().splitlines(), "class": sel[order[0]]["class"], "verdict": verdicts[order[0]][0]}],
           "exhaustive": T == "thorough"}
    ev = {"tier": T, "seed": seed(), "level": "model_checking", "coverage": cov,
          "assumptions": ["rustc/cargo as judges of compile verdicts; error attribution by the root of the diagnostic's expansion chain"]}
    return verdict.finish(ev, t.s())


def check_C15():
    """no_std: every accepted non-string declaration also compiles in a #![no_std] crate built against
    nutype with default features off (+serde, +arbitrary)."""
    t = Timer()
    T = tier()
    rng = random.Random(seed())
    verdict = Verdict("C15")
    r, rows = mc_decl_rows()
    sel = {}
    for k, obj in rows.items():
        src = obj["src"]
        if src["fam"] == "string" or src["shape"] != "tuple" or src["outer"] or src["fieldvis"]:
            continue
        if obj["class"] != "accept" or obj.get("capture"):
            continue      # C15 quantifies over ACCEPTED declarations; name capture is C08's finding
        if any(b["bk"] in ("new_unchecked", "bogus") for b in src["blocks"]):
            continue
        if any(t_ == "JsonSchema" for b in src["blocks"] for t_ in b["der"]):
            continue
        o = json.loads(json.dumps(obj))
        # features (and with them the dependencies of the generated crate) follow the derive list: only declarations that
        # derive Arbitrary link the `arbitrary` crate (which needs std); the others are built in a crate graph without std
        der = set(t_ for b in src["blocks"] for t_ in b["der"])
        o["src"]["feats"] = (["arbitrary"] if "Arbitrary" in der else []) + (["serde"] if der & {"Serialize", "Deserialize"} else [])
        sel[k] = o
    ids = sorted(sel)
    if T == "quick" and len(ids) > 900:
        keep = [k for k in ids if sel[k]["src"]["tparams"] or any(b["bk"] == "const_fn" for b in sel[k]["src"]["blocks"])]
        rest = [k for k in ids if k not in set(keep)]
        ids = sorted(keep + rng.sample(rest, 900 - min(900, len(keep))))
    sel = {k: sel[k] for k in ids}
    verdicts = build_verdicts("c15", sel, nostd=True, also_tests=True)
    tdir = ensure_dir(os.path.join(WORK, "trace", "c15"))
    tp, dp = os.path.join(tdir, "trace.ndjson"), os.path.join(tdir, "decls.json")
    with open(tp, "w") as f:
        for k in ids:
            f.write(json.dumps({"d": k, "verdict": verdicts[k][0], "capture": bool(sel[k].get("capture")), "ran_tests": False, "tests": []}) + "\n")
    with open(dp, "w") as f:
        json.dump({k: sel[k]["src"] for k in ids}, f)
    summary, bad, drift, tr = validate_trace("Trace_Decl", "Trace_Decl.cfg", "trace_c15", tp, dp)
    for (l, _i, obj) in bad:
        k = ids[l - 1]
        src = sel[k]["src"]
        msgs = verdicts[k][1]
        std_leak = any(("std" in m and ("E0433" in m or "E0432" in m)) or "cannot find macro" in m or "E0425" in m for m in msgs)
        tags = tags_of(sel[k])
        rec = {"property": "C15", "decl": k, "family": src["fam"], "class": obj["class"], "verdict": obj["verdict"], "tag": tags[0] if tags else "",
               "compiler_messages": msgs, "names_std": std_leak, "declaration": decl_only(src),
               "summary": "%s does not compile in a #![no_std] crate (%s) :: %s" % (k, "; ".join(m[:100] for m in msgs[:1]), decl_only(src).strip().replace("\n", " ")[:200])}
        verdict.violation(rec)
    acc = sum(1 for k in ids if verdicts[k][0] == "accepted")
    cov = {"states": r.distinct + tr.distinct, "transitions": r.generated + tr.generated,
           "traces_validated_against_impl": summary["events"], "declarations_built_no_std": len(ids), "accepted": acc,
           "evaluations": len(ids), "distinct_nontrivial": len(ids),
           "rule": "every integer/float/other declaration that the reference predicate classifies as well-formed (slices T and K of MC_Decl: derive sets x validation kinds x "
                   "const_fn/default/custom error/generics, and the generic forms of slice L) is built inside a generated #![no_std] library crate against nutype with default-features = false "
                   "(features and dependencies follow the derive list: none, serde without std, or serde + arbitrary), as library and as test target; "
                   "TLC validates the verdicts against Class. Level: configuration enumeration with rustc as judge; the specification contributes the space and the expected verdict.",
           "samples": [{"declaration": decl_only(sel[ids[0]]["src"]).strip().splitlines(), "verdict": verdicts[ids[0]][0]}],
           "exhaustive": T == "thorough"}
    ev = {"tier": T, "seed": seed(), "level": "model_checking", "coverage": cov,
          "assumptions": ["host-target #![no_std] library crate: a `::std::` path or a std-prelude macro fails (E0433 / cannot find macro); the crate graph of a declaration "
                          "that does not derive Arbitrary contains no crate that links std (serde with default-features = false), so std-only inherent methods (f64::mul_add, ..) "
                          "fail too (E0599; mutation-tested); with derive(Arbitrary) the arbitrary crate links std and such methods would resolve"]}
    return verdict.finish(ev, t.s())

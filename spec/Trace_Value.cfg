SPECIFICATION TraceSpec
CONSTANTS
  Prim <- TracePrim
INVARIANTS
  Report
POSTCONDITION TraceConsumed
CHECK_DEADLOCK FALSE

"""Property checks decided on the run-time layer with direct entry points: C01, C03, C07."""
import json
import os
import random
from concurrent.futures import ThreadPoolExecutor

from .common import ToolError, Verdict, Timer, log, seed, tier
from . import value_layer as VL
from . import checks_value as CV
from . import strenv
from .tlc import run_tlc, json_rows

FAMS = ("int", "float", "string", "any")
MC_MODULE = {"int": "MC_ValueInt", "float": "MC_ValueFloat", "string": "MC_ValueStr", "any": "MC_ValueAny"}


def mc_all(cfg_suffix, fams=FAMS, cfg_override=None):
    """run the four model-checking configurations (in parallel), return {fam: (TlcResult, abstract decls)}."""
    def one(fam, workers=None):
        mod = MC_MODULE[fam]
        cfg = (cfg_override or {}).get(fam) or "%s_%s.cfg" % (mod, cfg_suffix)
        if not os.path.exists(os.path.join(os.path.dirname(os.path.dirname(os.path.dirname(os.path.dirname(__file__)))), "spec", cfg)):
            cfg = "%s_quick.cfg" % mod
        r = run_tlc(mod, cfg, "mc_%s_%s" % (fam, cfg.replace(".cfg", "")), workers=workers or max(4, 16 // len(fams)))
        rows = json_rows(r, "DECL")
        decls = [obj for (_i, obj) in sorted(rows, key=lambda t: t[0])]
        if not decls:
            raise ToolError("model checking run %s emitted no declarations" % cfg)
        return fam, (r, decls)
    if tier() == "thorough":
        # the thorough spaces are large: one TLC at a time with all cores
        return dict(one(f, 16) for f in fams)
    with ThreadPoolExecutor(max_workers=len(fams)) as ex:
        return dict(ex.map(one, fams))


def three_sanitizers(ad):
    """string declarations with three sanitizers (trim, a case mapping and a custom function in every order): where a
    reordered, fused or hoisted sanitizer shows. Always part of the sample."""
    return (ad["fam"] == "string" and len(ad["san"]) >= 3) or ad.get("ty") in ("Gen<Point>", "Vec<u8>")      # (and the generic wrapper Nt<T>(T) and the byte vector: a few declarations)


def run_direct_property(prop, eps, sizes, nrandom, want_default, extra_must=None, mc_suffix=None,
                        cfg_override=None, lifts=1, evidence_extra=None, reject_is_violation=None,
                        rows_fn=None, fams=FAMS, decl_filter=None, nshards=4, const_twins=False, extra_mc=(), sweeps=False, generic_history=False,
                        gate_fn=None, release_twins=0, extra_decls=None):
    """Generic driver: model-check the four family slices, replay a seeded sample of the TLC-enumerated
    declarations (every enumerated input and more) into freshly generated code, validate the recorded
    trace against the specification."""
    t = Timer()
    T = tier()
    rng = random.Random(seed())
    strenv.verify()
    verdict = Verdict(prop)
    mcs = mc_all(mc_suffix or T, fams=fams, cfg_override=cfg_override)
    stats = {}
    mc_states = mc_trans = 0
    extra_runs = {}
    for (mod, cfg) in extra_mc:
        rx = run_tlc(mod, cfg, "mc_extra_" + mod.lower(), workers=16)
        mc_states += rx.distinct
        mc_trans += rx.generated
        extra_runs[mod] = {"distinct_states": rx.distinct, "states_generated": rx.generated, "depth": rx.depth}
    n_decl_space = {}
    all_decls = []
    samples_out = []
    not_evaluated = {}
    for fam in fams:
        r, adecls = mcs[fam]
        if decl_filter:
            adecls = [ad for ad in adecls if decl_filter(ad)]
        mc_states += r.distinct
        mc_trans += r.generated
        n_decl_space[fam] = len(adecls)
        sample = CV.sample_decls(adecls, sizes.get(fam), rng, must=(lambda ad, f=extra_must: three_sanitizers(ad) or bool(f and f(ad))))
        decls = CV.instantiate_slice(fam, sample, rng, "%s%s_" % (prop.lower(), fam[0]), lifts=lifts)
        if const_twins and fam in ("int", "float"):
            twins = []
            for d in decls[::3]:
                tw = CV.const_twin(d, d["id"] + "_c")
                if tw:
                    twins.append(tw)
            decls = decls + twins
        feats = ["serde", "regex"] if fam == "string" else ["serde"]
        name = "%s_%s" % (prop.lower(), fam)
        extra_ids = set()
        if extra_decls and extra_decls.get(fam):
            decls = decls + list(extra_decls[fam])
            extra_ids = {d["id"] for d in extra_decls[fam]}
        if gate_fn:
            # declarations derived from the sampled ones that the macro must REFUSE (acceptance = violation);
            # the sampled originals, which compile, are their positive controls
            gates, seen_g = [], set()
            for d in decls:
                gs = gate_fn(d)
                if gs is None:
                    continue
                for g in (gs if isinstance(gs, list) else [gs]):
                    key = json.dumps([g["ty"], g["san"], g["vmode"], g["val"], g["traits"]], sort_keys=True)
                    if key not in seen_g:
                        seen_g.add(key)
                        gates.append(g)
            if gates:
                _o, g_rej, g_alive = CV.build_and_run(name + "_gate", gates, lambda d_: [], feats, feats, nshards=2)
                by_g = {g["id"]: g for g in gates}
                for k in g_alive:
                    g = by_g[k]
                    verdict.violation({"property": prop, "decl": k, "family": fam, "ty": g["ty"], "kind": "gate_accepted", "tag": "gate",
                                       "declaration": CV.describe_decl(g),
                                       "summary": "%s is accepted although it must be refused: %s" % (k, " ".join(CV.describe_decl(g).split())[-200:])})
                stats["gate_declarations"] = stats.get("gate_declarations", 0) + len(gates)
                stats["gate_refused"] = stats.get("gate_refused", 0) + len(g_rej)

        def rows_of(d, _rng=rng):
            if rows_fn:
                return rows_fn(d, _rng)
            return CV.rows_direct(d, _rng, nrandom, eps=eps, with_default=want_default)
        obs, rejected, alive = CV.build_and_run(name, decls, rows_of, feats, feats, nshards=nshards)
        for k, msgs in rejected.items():
            not_evaluated[k] = msgs[:3]
            if (reject_is_violation and reject_is_violation(msgs)) or k in extra_ids:      # (a probe declaration must compile)
                d = [x for x in decls if x["id"] == k][0]
                verdict.violation({"property": prop, "decl": k, "family": fam, "kind": "compile",
                                   "declaration": CV.describe_decl(d), "messages": msgs[:5],
                                   "summary": "%s does not compile: %s" % (k, msgs[0][:160])})
        if len(rejected) > len(decls) // 2:
            raise ToolError("more than half of the %s declarations of %s failed to compile: %s" % (
                fam, prop, list(rejected.items())[:2]))
        alive_decls = [d for d in decls if d["id"] in set(alive)]
        CV.judge_trace(prop, verdict, name, alive_decls, obs, stats)
        if release_twins:
            # the same declarations built with the release profile (no debug_assertions, no overflow checks): generated code
            # must not behave differently there (e.g. a check under #[cfg(debug_assertions)])
            import copy
            cands = [d for d in alive_decls if not d.get("const_fn") and not d.get("gen_decl")]
            cands.sort(key=lambda d: (not ("Default" in d["traits"] and d["dflt"] and d["vmode"] != "none"), d["id"]))
            twins = []
            for d in cands[:release_twins]:
                tw = copy.deepcopy({k: v for k, v in d.items() if k != "_phi"})
                if "_phi" in d:
                    tw["_phi"] = d["_phi"]
                tw["id"] = d["id"] + "_r"
                tw["minimal_driver"] = True
                twins.append(tw)
            if twins:
                r_obs, _r_rej, r_alive = CV.build_and_run(name + "_rel", twins, lambda d_, _rng=rng: CV.rows_direct(d_, _rng, 8, eps=eps, with_default=want_default),
                                                           feats, feats, nshards=2, release=True)
                r_decls = [d for d in twins if d["id"] in set(r_alive)]
                CV.judge_trace(prop, verdict, name + "_rel", r_decls, r_obs, stats)
                stats["release_profile_twins"] = stats.get("release_profile_twins", 0) + len(r_decls)
        all_decls.extend(alive_decls)
        if alive_decls:
            samples_out.append({"family": fam, "declaration": CV.describe_decl(alive_decls[0]).strip().splitlines()[-8:]})
    # ---- exhaustive sweeps (thorough tier): all values of 8/16-bit integer types, all 2^32 f32 bit patterns
    sweep_info = {}
    if sweeps and (T == "thorough" or os.environ.get("VERIF_SWEEP_TEST")):
        import copy
        test = bool(os.environ.get("VERIF_SWEEP_TEST")) and T != "thorough"
        elig_f = [d for d in all_decls if d["fam"] == "float" and d["ty"] == "f32" and d["vmode"] in ("std", "none") and not d.get("const_fn")]
        elig_i = [d for d in all_decls if d["fam"] == "int" and d["ty"] in ("i8", "u8", "i16", "u16") and d["vmode"] in ("std", "none") and not d.get("const_fn")]
        pick = rng.sample(elig_f, min(len(elig_f), 4 if test else 24)) + rng.sample(elig_i, min(len(elig_i), 6 if test else 60))
        sw = []
        for d in pick:
            c = copy.deepcopy({k: v for k, v in d.items() if k != "_phi"})
            c["id"] = d["id"] + "_sw"
            sw.append(c)

        def sweep_rows(d):
            marks = set()
            for s_ in d["san"]:
                marks.update(s_["p"])
            for r_ in d["val"]:
                if r_["k"] in ("greater", "greater_or_equal", "less", "less_or_equal"):
                    marks.add(r_["b"])
                marks.update(r_["p"])
            marks.add(0)
            inp = {"marks": [VL.enc_value(d, v) for v in sorted(marks)]}
            if d["fam"] == "float":
                inp.update({"from": 0, "to": (1 << 26) if test else (1 << 32), "threads": 4})
            return [{"d": d["id"], "ep": "sweep", "ins": [inp]}]
        if sw:
            VL.sweep_stats.clear()
            obs, rejected, alive = CV.build_and_run(prop.lower() + "_sweep", sw, sweep_rows, ["serde", "regex"], ["serde", "regex"], nshards=4, release=True)
            alive_sw = [d for d in sw if d["id"] in set(alive)]
            CV.judge_trace(prop, verdict, prop.lower() + "_sweep", alive_sw, obs, stats)
            sweep_info = {"declarations": len(alive_sw), "constructor_calls": VL.sweep_stats.get("calls", 0),
                          "cell_classes_observed": VL.sweep_stats.get("cell_classes", 0),
                          "domains": "every value of i8/u8/i16/u16; every one of the 2^32 f32 bit patterns" if not test else "TEST RANGE (2^26 patterns)"}
    if generic_history:
        generic_instantiation_history(prop, verdict, stats)
    if not_evaluated:
        verdict.notes.append("%d declarations did not compile and were not evaluated: %s" % (
            len(not_evaluated), json.dumps(dict(list(not_evaluated.items())[:3]))[:400]))
    cov = {
        "states": mc_states, "transitions": mc_trans,
        "traces_validated_against_impl": stats.get("trace_pairs", 0),
        "release_profile_twins": stats.get("release_profile_twins", 0),
        "declarations_that_must_be_refused": {"built": stats.get("gate_declarations", 0), "refused": stats.get("gate_refused", 0)},
        "trace_events": stats.get("trace_events", 0),
        "declaration_space_enumerated_by_tlc": n_decl_space,
        "declarations_replayed": len(all_decls),
        "declarations_not_evaluated": len(not_evaluated),
        "entry_points": sorted(eps) if eps else "all direct",
        "nan_policy_inferred": stats.get("nan_policy", {}),
        "evaluations": stats.get("trace_pairs", 0),
        "distinct_nontrivial": stats.get("nontrivial_pairs", 0),
        "rule": "TLC enumerates the bounded declaration x input space and checks operational => declarative; "
                "a seeded sample of the declarations is rendered, compiled against /repo and driven with every "
                "enumerated input plus boundary neighbourhoods, Unicode probes and random values; every "
                "(input, outcome) pair is validated by TLC (Trace_Value) against the declarative DeclCall",
        "samples": samples_out,
        "exhaustive": False,
    }
    if extra_runs:
        cov["additional_model_checking_runs"] = extra_runs
    if sweep_info:
        cov["exhaustive_sweeps"] = sweep_info
        cov["evaluations"] = cov["evaluations"] + sweep_info["constructor_calls"]
    if evidence_extra:
        cov.update(evidence_extra)
    ev = {"tier": T, "seed": seed(), "level": "model_checking", "coverage": cov,
          "assumptions": ["TLC/SANY and the Json/IOUtils modules", "rustc/cargo as builders",
                          "harness projection (rank tables, bit classification) in harness/py/vh/values.py",
                          "std's trim/to_lowercase/to_uppercase and char counting are environment (logged per event)"]}
    return verdict.finish(ev, t.s())


GENERIC_MODULE = """
pub trait Lim { const CAP: usize; }
impl Lim for i32 { const CAP: usize = 3; }
impl Lim for u8 { const CAP: usize = 0; }

#[nutype(
    validate(predicate = |v| v.len() <= T::CAP),
    derive(Debug, Clone, PartialEq, Default, TryFrom),
    default = vec![T::default()]
)]
pub struct Nt<T: Lim + Default + Clone>(Vec<T>);

fn enc_u8s(v: Vec<u8>) -> Value { Value::Array(v.iter().map(|x| Value::String(x.to_string())).collect()) }
fn dec_u8s(v: &Value) -> Vec<u8> { v.as_array().unwrap().iter().map(|x| x.as_str().unwrap().parse::<u8>().unwrap()).collect() }

pub fn call(ep: &str, inp: &Value) -> (Value, Value) {
    match ep {
        "default_a" => (guard(|| ok(<Nt<i32> as Default>::default().into_inner().enc())), Value::Null),
        "default_b" => (guard(|| ok(enc_u8s(<Nt<u8> as Default>::default().into_inner()))), Value::Null),
        "try_new_a" => { let x: Vec<i32> = <Vec<i32> as Dec>::dec(inp); (guard(|| res(Nt::<i32>::try_new(x).map(|t| t.into_inner()))), Value::Null) }
        "try_new_b" => { let x: Vec<u8> = dec_u8s(inp); (guard(|| match Nt::<u8>::try_new(x) { Ok(t) => ok(enc_u8s(t.into_inner())), Err(e) => err_dbg(&e) }), Value::Null) }
        "try_from_a" => { let x: Vec<i32> = <Vec<i32> as Dec>::dec(inp); (guard(|| res(<Nt<i32> as TryFrom<Vec<i32>>>::try_from(x).map(|t| t.into_inner()))), Value::Null) }
        _ => (json!({"k": "noep"}), Value::Null),
    }
}
"""


def generic_instantiation_history(prop, verdict, stats):
    """C03 (generic declarations): one generic newtype whose predicate depends on the type parameter through a trait
    constant, instantiated at i32 (default valid) and u8 (default invalid), with the entry points called in an
    interleaved order - state shared between instantiations (a function-local static, a cache) would show here."""
    from .tlc import validate_trace_chunks
    d = {"id": "gen_hist", "fam": "any", "ty": "Vec<T>", "module_override": GENERIC_MODULE, "san": [], "vmode": "std", "val": [], "traits": [], "dflt": []}
    vals = [[], ["0"], ["1", "2"], ["1", "2", "3"], ["1", "2", "3", "4"]]
    seq = [("default_a", [None]), ("default_b", [None]), ("default_a", [None]), ("default_b", [None]),
           ("try_new_a", vals), ("try_new_b", vals), ("default_b", [None]), ("try_from_a", vals), ("default_a", [None]), ("default_b", [None])]

    def rows_of(_d):
        return [{"d": "gen_hist", "ep": ep, "ins": ins} for (ep, ins) in seq]
    obs, rejected, alive = CV.build_and_run(prop.lower() + "_generic", [d], rows_of, ["serde"], ["serde"], nshards=1)
    if rejected:
        verdict.notes.append("generic history declaration did not compile: %s" % json.dumps(rejected)[:300])
        return
    def mdecl(cap):
        return {"fam": "any", "ty": "Vec<T>", "san": [], "vmode": "std", "traits": ["Default", "TryFrom"],
                "val": [{"k": "predicate", "b": 0, "fn": "len_le", "p": [cap], "sp": "lit"}], "dflt": [[0]]}
    table = {"gen_a": mdecl(3), "gen_b": mdecl(0)}
    events, index = [], []
    for line in open(obs[0]):
        o = json.loads(line)
        which = "gen_a" if o["ep"].endswith("_a") else "gen_b"
        ep = o["ep"][:-2]
        ins, outs, raw = [], [], []
        for (inp, out, x) in o["b"]:
            ins.append({"ok": True, "v": []} if ep == "default" else {"ok": True, "v": [[int(v) for v in inp]]})
            k = out.get("k")
            outs.append({"k": "ok", "v": [[int(v) for v in out["v"]]], "e": ""} if k == "ok" else
                        {"k": "err", "v": [], "e": out["e"]} if k == "err" else {"k": k, "v": [], "e": ""})
            raw.append((inp, out, x))
        events.append({"d": which, "ep": ep, "ins": ins, "outs": outs, "envs": []})
        index.append((which, o["ep"], raw))
    summary, bad, drift, states = validate_trace_chunks("Trace_Value", "Trace_Value.cfg", "trace_" + prop.lower() + "_generic", events, table, nchunks=1)
    stats["trace_pairs"] = stats.get("trace_pairs", 0) + summary["pairs"]
    stats["trace_events"] = stats.get("trace_events", 0) + summary["events"]
    stats["trace_states"] = stats.get("trace_states", 0) + states
    for (l, i, obj) in bad:
        which, ep, raw = index[l]
        inp, out, _x = raw[i - 1]
        verdict.violation({"property": prop, "decl": "gen_hist/" + which, "family": "any", "ty": "Vec<T>", "ep": ep, "input": inp, "observed": out,
                           "declarative_outcome": obj["want"], "tag": "generic_instantiation_history", "declaration": GENERIC_MODULE,
                           "summary": "generic Nt<T> instantiated at %s: %s(%s) observed %s, declarative statement demands %s (event %d of the interleaved history)" % (
                               "i32 (CAP=3)" if which == "gen_a" else "u8 (CAP=0)", ep, json.dumps(inp), json.dumps(out), json.dumps(obj["want"]), l + 1)})


def variant_reject(msgs):
    return any(("E0004" in m or "no variant" in m or "E0599" in m) for m in msgs)


def check_C01():
    q = tier() == "quick"
    sizes = {"int": 70, "float": 50, "string": 70, "any": 40} if q else {"int": 400, "float": 300, "string": 400, "any": None}
    return run_direct_property("C01", {"try_new", "new"}, sizes, 60 if q else 400, False, const_twins=True, sweeps=True,
                               evidence_extra={"twins": "every third integer/float declaration also as a `const_fn` twin (custom functions as `const fn`), driven at run time and "
                                               "evaluated by rustc's compile-time interpreter in `const` items on the bound neighbourhood; the `any` family includes the generic Nt<T: Ord>(Vec<T>)"})


def sanitizer_sensitive(ad):
    """string declarations whose validators can change their verdict under the declared sanitizers (a case mapping or trim
    together with a length rule): where validating the raw instead of the sanitised value shows."""
    return (ad["fam"] == "string" and any(s_["k"] in ("lowercase", "uppercase", "trim") for s_ in ad["san"])
            and any(r["k"] in ("len_char_min", "len_char_max", "not_empty") for r in ad["val"]))


def hygiene_probe_decls():
    """C03 / Default: the `default = <expr>` expression is spliced into generated code. Build one declaration with the hook on,
    read the names the generated `fn default()` declares itself (`let x`, `const X`, `static X`) off the recorded expansion,
    and declare for each a user constant of that very name as the default: it must not be captured."""
    import re
    import subprocess
    from .common import WORK, ensure_dir
    from .crate import Crate, build_many
    tdir = ensure_dir(os.path.join(WORK, "trace", "c03_hyg"))
    hook = os.path.join(tdir, "hook.ndjson")
    if os.path.exists(hook):
        os.remove(hook)
    src = ("#![allow(unused, dead_code)]\nuse nutype::nutype;\n#[nutype(validate(greater = 0), derive(Debug, Default), default = 5)]\npub struct HygInt(i32);\n"
           "#[nutype(sanitize(trim), validate(not_empty), derive(Debug, Default), default = \"a\")]\npub struct HygStr(String);\n")
    os.environ["NUTYPE_VERIF_TRACE"] = hook
    try:
        c = Crate("c03_hyg", ["serde", "verif_hooks"], ["serde"], {"h0": src},
                  lambda ids: "#![allow(unused, dead_code)]\n" + "".join('#[path = "d/%s.rs"] mod %s;\n' % (k, k) for k in ids) + "fn main() {}\n")
        build_many([c])
    finally:
        os.environ.pop("NUTYPE_VERIF_TRACE", None)
    names = set()
    if os.path.exists(hook):
        for line in open(hook):
            out = json.loads(line).get("out", "")
            m = re.search(r"fn\s+default\s*\(\s*\)\s*->\s*Self\s*\{(.*)", out, re.S)
            if not m:
                continue
            body = m.group(1)[:4000]
            for kw, nm in re.findall(r"\b(let|let mut|const|static)\s+([A-Za-z_][A-Za-z0-9_]*)\b", body):
                if nm not in ("mut", "_"):
                    names.add(nm)
    decls = []
    for i, nm in enumerate(sorted(names)[:12]):
        di = VL.instantiate_int({"fam": "int", "ty": "i8", "san": [], "vmode": "std",
                                 "val": [{"k": "greater", "b": 0, "fn": "", "p": [], "sp": "lit"}],
                                 "traits": ["Debug", "Clone", "PartialEq", "Default"], "dflt": [7]}, "i8", "hyg%02d_i" % i)
        di["default_item"] = [nm, "7"]
        di["minimal_driver"] = True
        decls.append(di)
        decls.append({"id": "hyg%02d_s" % i, "fam": "string", "ty": "String", "san": [{"k": "trim", "fn": "", "p": []}], "vmode": "std",
                      "val": [{"k": "not_empty", "b": 0, "fn": "", "p": [], "sp": "lit"}], "traits": ["Debug", "Clone", "PartialEq", "Default"],
                      "dflt": [(98,)], "default_item": [nm, "\"b\""], "minimal_driver": True})
    return decls, sorted(names)


def check_C03():
    q = tier() == "quick"
    sizes = {"int": 60, "float": 40, "string": 100, "any": 40} if q else {"int": 300, "float": 200, "string": 300, "any": None}
    eps = {"try_from", "from", "try_from_ref", "from_ref", "from_str_s", "default", "try_new", "new"}
    hyg, names = hygiene_probe_decls()
    return run_direct_property("C03", eps, sizes, 30 if q else 200, True, generic_history=True, release_twins=12 if q else 60,
                               extra_must=sanitizer_sensitive, extra_decls={"int": [d for d in hyg if d["fam"] == "int"],
                                                                             "string": [d for d in hyg if d["fam"] == "string"]},
                               reject_is_violation=lambda msgs: False,
                               evidence_extra={"hygiene_probe_names": names})


def check_C07():
    q = tier() == "quick"
    sizes = {"int": 70, "float": 70, "string": 80, "any": 20} if q else {"int": 400, "float": 500, "string": 600, "any": None}
    eps = {"try_new", "new", "try_from", "try_from_ref", "from_str_s"}
    return run_direct_property("C07", eps, sizes, 40 if q else 300, False, mc_suffix="c07", const_twins=True,
                               extra_must=lambda ad: ad["fam"] == "float" and any(r["k"] == "predicate" and r["fn"] == "not_nan" for r in ad["val"]),
                               lifts=1 if q else 2, reject_is_violation=variant_reject,
                               evidence_extra={"slice": "every permutation of the validator lists (int: lower+upper+predicate; "
                                               "float: lower+upper+finite+predicate; string: 4 and 5 of not_empty, len_char_min, "
                                               "len_char_max, predicate, regex), contradictory expression bounds included; "
                                               "error enum variants checked by an exhaustive match without wildcard"})

SPECIFICATION Spec
CONSTANTS
  Tier = "thorough"
  DeclSeq <- MCDeclSeq
  InputsOf <- MCInputsOf
  EpsOf <- MCEpsOf
  Prim <- MCPrim
  MEnv = 0
INVARIANTS
  MeetsDeclarative
  FunctionFormAgrees
  WrapsSanitized
  FirstViolated
  NeverWrapsInvalid
  PanicOnlyFromInvalidDefault
  EmitDecl
CHECK_DEADLOCK FALSE

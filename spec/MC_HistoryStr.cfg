SPECIFICATION HSpec
CONSTANTS
  Prim <- HPrim
  HDecls <- MCHDecls
  HInputs <- MCHInputs
  HEnv = 0
  MaxDepth = 4
INVARIANTS
  StaysPut
PROPERTIES
  ReEntryIsConstructor
  NeverMutates
CHECK_DEADLOCK FALSE

SPECIFICATION MSpec
INVARIANTS
  TruthfulOrKnown
  CandidatesExact
  EmitCase
CHECK_DEADLOCK FALSE

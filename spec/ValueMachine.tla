---------------------------- MODULE ValueMachine ----------------------------
(***************************************************************************)
(* The generated code of one declaration as a state machine: one action    *)
(* per step the generated functions take.  A behaviour is one call of one  *)
(* entry point on one input:                                               *)
(*                                                                         *)
(*   Call  -> Sanitize* -> (Validate* | ValidateCustom) -> Wrap -> Return  *)
(*                                  \-> Reject ---------------/            *)
(*                                                                         *)
(* TLC checks at every `done` state that the result equals the declarative *)
(* DeclCall (C01, C03, C04, C06, C07 on the model) and the function-form   *)
(* OpCall used by trace validation (so the two forms of the operational    *)
(* model cannot drift apart).                                              *)
(***************************************************************************)
EXTENDS NutypeValue

CONSTANTS
  DeclSeq,          \* sequence of the declarations explored by this run
  InputsOf(_, _),   \* InputsOf(d, ep): set of input records [ok, v]
  EpsOf(_),         \* EpsOf(d): entry points the declaration offers
  MEnv              \* the environment passed to Prim (ignored by MC Prim)

VARIABLES
  di,    \* index of the declaration in DeclSeq
  pc,    \* "idle" | "sanitize" | "validate" | "wrap" | "return" | "done"
  ep,    \* entry point being executed
  inp,   \* its input
  cur,   \* <<value>> flowing through __sanitize__/__validate__ (<<>> when none)
  idx,   \* index of the next sanitizer / validator
  pend,  \* result of the constructor before the entry point adapts it
  out    \* final outcome

vars == <<di, pc, ep, inp, cur, idx, pend, out>>

D == DeclSeq[di]

Init ==
  /\ di \in DOMAIN DeclSeq
  /\ pc = "idle" /\ ep = "" /\ inp = InFail /\ cur = <<>> /\ idx = 0
  /\ pend = NoneOut /\ out = NoneOut

\* client calls an entry point
Call(e, x) ==
  /\ pc = "idle"
  /\ ep' = e /\ inp' = x /\ idx' = 1 /\ UNCHANGED <<di, pend>>
  /\ CASE e \in DirectEps -> cur' = <<x.v[1]>> /\ pc' = "sanitize" /\ out' = out
       [] e = "default"   -> cur' = <<D.dflt[1]>> /\ pc' = "sanitize" /\ out' = out
       [] e \in {"parse", "deser"} ->
            IF x.ok THEN cur' = <<x.v[1]>> /\ pc' = "sanitize" /\ out' = out
            ELSE \* `?` on the inner FromStr error / `return Err(err)` on the inner Deserialize error
                 cur' = <<>> /\ pc' = "done"
                 /\ out' = (IF e = "parse" THEN ParseErrOut ELSE DeErrOut)

\* one `value = f(value)` statement of __sanitize__
SanitizeStep ==
  /\ pc = "sanitize"
  /\ UNCHANGED <<di, ep, inp, pend, out>>
  /\ IF idx <= Len(D.san)
     THEN cur' = <<ApplySan(D.fam, D.san[idx], cur[1], MEnv)>> /\ idx' = idx + 1 /\ pc' = pc
     ELSE cur' = cur /\ idx' = 1 /\ pc' = (IF D.vmode = "none" THEN "wrap" ELSE "validate")

\* one `if .. { return Err(..) }` statement of __validate__
ValidateStep ==
  /\ pc = "validate" /\ D.vmode = "std"
  /\ UNCHANGED <<di, ep, inp, cur, out>>
  /\ IF idx > Len(D.val) THEN pc' = "wrap" /\ idx' = idx /\ pend' = pend
     ELSE IF OpRejects(D.fam, D.val[idx], cur[1])
          THEN pend' = ErrOut(Variant(D.val[idx].k)) /\ pc' = "return" /\ idx' = idx
          ELSE idx' = idx + 1 /\ pc' = pc /\ pend' = pend

\* `#with(value)` of the custom validator
ValidateCustom ==
  /\ pc = "validate" /\ D.vmode = "custom"
  /\ UNCHANGED <<di, ep, inp, cur, idx, out>>
  /\ LET e == CustomVal(D.fam, D.val[1].fn, D.val[1].p, cur[1]) IN
     IF e = "" THEN pc' = "wrap" /\ pend' = pend
     ELSE pend' = ErrOut(e) /\ pc' = "return"

\* `Ok(T(sanitized_value))` / `Self(Self::__sanitize__(raw_value))`
Wrap ==
  /\ pc = "wrap"
  /\ pend' = OkOut(cur[1]) /\ pc' = "return"
  /\ UNCHANGED <<di, ep, inp, cur, idx, out>>

\* the derived entry point adapts the constructor's result
Return ==
  /\ pc = "return"
  /\ pc' = "done"
  /\ out' = (IF ep = "default" /\ ~IsOk(pend) THEN PanicOut ELSE pend)
  /\ UNCHANGED <<di, ep, inp, cur, idx, pend>>

Next ==
  \/ \E e \in EpsOf(D) : \E x \in InputsOf(D, e) : Call(e, x)
  \/ SanitizeStep \/ ValidateStep \/ ValidateCustom \/ Wrap \/ Return

Spec == Init /\ [][Next]_vars

-----------------------------------------------------------------------------
(* Properties checked on the model                                         *)

Done == pc = "done"

\* C01/C03/C04/C06/C07: every entry point computes the declarative outcome
MeetsDeclarative == Done => DeclOK(D, ep, inp, MEnv, CodeNanPolicy, out)

\* the function form of the operational model equals the step form
FunctionFormAgrees == Done => out = OpCall(D, ep, inp, MEnv)

\* C01: an Ok result wraps exactly the sanitized input
WrapsSanitized ==
  (Done /\ IsOk(out) /\ ep \in DirectEps) => OutVal(out) = SanAll(D, inp.v[1], MEnv)

\* C07: a reported variant belongs to a declared validator that the
\* sanitized value really violates, and no earlier validator is violated
FirstViolated ==
  (Done /\ out.k = "err" /\ D.vmode = "std" /\ ep \in DirectEps) =>
     LET s == SanAll(D, inp.v[1], MEnv)
         V == Violated(D, s, CodeNanPolicy)
     IN V # {} /\ out.e = Variant(D.val[NMin(V)].k)

\* no value that violates a validator is ever wrapped (C01, C04, C06, C12)
NeverWrapsInvalid ==
  (Done /\ IsOk(out) /\ D.vmode = "std") => Violated(D, OutVal(out), CodeNanPolicy) = {}

\* the constructor never panics (C01); only Default may, and only on an
\* invalid default (C03)
PanicOnlyFromInvalidDefault ==
  (Done /\ out.k = "panic") =>
     (ep = "default" /\ ~IsOk(DeclCtor(D, D.dflt[1], MEnv, CodeNanPolicy)))

=============================================================================

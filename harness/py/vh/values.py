"""Concrete value handling: type tables, encoding for scripts, projection onto model values.

Model values (see spec/NutypeTypes.tla):
  int     -> python int (concrete for 8/16/32-bit-signed types, rank otherwise)
  float   -> {"c": "num"|"inf"|"nan", "r": rank, "u": "<hex bits>"}
  string  -> list of code points
  any     -> list of ints
"""
import struct

INT_TYPES = {
    "i8": (-2**7, 2**7 - 1), "u8": (0, 2**8 - 1),
    "i16": (-2**15, 2**15 - 1), "u16": (0, 2**16 - 1),
    "i32": (-2**31, 2**31 - 1), "u32": (0, 2**32 - 1),
    "i64": (-2**63, 2**63 - 1), "u64": (0, 2**64 - 1),
    "i128": (-2**127, 2**127 - 1), "u128": (0, 2**128 - 1),
    "isize": (-2**63, 2**63 - 1), "usize": (0, 2**64 - 1),
}
# types whose values are used concretely as TLC integers (fit in a Java int)
CONCRETE_INT = {"i8", "u8", "i16", "u16", "i32"}
# types on which the model may also do arithmetic (2*x stays inside a Java int)
ARITH_INT = {"i8", "u8", "i16", "u16"}

FLOAT_TYPES = {"f32": 32, "f64": 64}


# ------------------------------------------------------------------ floats

def f_bits(ty, x):
    """bits of python float x rounded to type ty."""
    if ty == "f32":
        return struct.unpack("<I", struct.pack("<f", x))[0]
    return struct.unpack("<Q", struct.pack("<d", x))[0]


def f_from_bits(ty, b):
    if ty == "f32":
        return struct.unpack("<f", struct.pack("<I", b))[0]
    return struct.unpack("<d", struct.pack("<Q", b))[0]


def f_enc(ty, bits):
    return ("32:%08x" if ty == "f32" else "64:%016x") % bits


def f_dec(s):
    w, h = s.split(":")
    return ("f32" if w == "32" else "f64"), int(h, 16)


def f_class(ty, bits):
    w = FLOAT_TYPES[ty]
    mant_bits = 23 if w == 32 else 52
    exp_mask = ((1 << (w - 1 - mant_bits)) - 1) << mant_bits
    mant = bits & ((1 << mant_bits) - 1)
    if bits & exp_mask == exp_mask:
        return "nan" if mant else "inf"
    return "num"


def f_key(ty, bits):
    """total-order key of a non-NaN pattern with -0.0 and +0.0 merged (IEEE comparison order)."""
    w = FLOAT_TYPES[ty]
    sign = bits >> (w - 1)
    mag = bits & ((1 << (w - 1)) - 1)
    return -mag if sign else mag


class FloatProjector:
    """rank table over the bit patterns that occur for one declaration (bounds, params, inputs, outputs)."""

    def __init__(self, ty):
        self.ty = ty
        self.keys = set()

    def add(self, bits):
        if f_class(self.ty, bits) != "nan":
            self.keys.add(f_key(self.ty, bits))

    def freeze(self):
        self.rank = {k: i for i, k in enumerate(sorted(self.keys))}

    def model(self, bits):
        c = f_class(self.ty, bits)
        hexs = ("%08x" if self.ty == "f32" else "%016x") % bits
        if c == "nan":
            return {"c": "nan", "r": 0, "u": hexs}
        return {"c": c, "r": self.rank[f_key(self.ty, bits)], "u": hexs}


class IntProjector:
    """identity for concrete types, rank table otherwise."""

    def __init__(self, ty):
        self.ty = ty
        self.concrete = ty in CONCRETE_INT
        self.vals = set()

    def add(self, v):
        if not self.concrete:
            self.vals.add(v)

    def freeze(self):
        if not self.concrete:
            self.rank = {v: i for i, v in enumerate(sorted(self.vals))}

    def model(self, v):
        return v if self.concrete else self.rank[v]

SPECIFICATION TraceSpec
INVARIANTS
  Report
POSTCONDITION TraceConsumed
CHECK_DEADLOCK FALSE

----------------------------- MODULE NutypeDecl -----------------------------
(***************************************************************************)
(* Expansion-time layer of the nutype specification: what happens to a     *)
(* declaration `#[nutype(..)] struct Name<..>(Inner);` when the macro      *)
(* (and then rustc) processes it.                                          *)
(*                                                                         *)
(* A *surface declaration* is the declaration as written:                  *)
(*   [fam, ty, name, tparams, shape, fieldvis, outer, blocks, feats]       *)
(* blocks is the sequence of attribute blocks in written order:            *)
(*   [bk  : "sanitize" | "validate" | "derive" | "default" | "const_fn"    *)
(*          | "new_unchecked" | "bogus",                                   *)
(*    san : Seq([w, fn]),          sanitizers as written (w = spelling)    *)
(*    val : Seq([w, b, sp, fn]),   validators as written; b = bound        *)
(*    der : Seq(STRING),           trait names as written                  *)
(*    dfl : "" | "valid" | "invalid" | "block" (a valid default written   *)
(*          as a block / if-else expression, i.e. with braces)]            *)
(*                                                                         *)
(* OPERATIONAL: Op* transcribes the pipeline parse_meta -> parse           *)
(* attributes (a loop that ASSIGNS each block kind, common/parse/mod.rs:   *)
(* 237-322) -> validate guard -> validate traits -> generate (late         *)
(* rejections) -> rustc (type-level consequences the macro leaves to the   *)
(* compiler).                                                              *)
(*                                                                         *)
(* DECLARATIVE: Class(src) \in {"reject", "accept", "dontcare"} is the     *)
(* reference predicate of C08, written as the list of the property         *)
(* statement; Denote(src) is what a reader of the source understands       *)
(* (C02): ALL rules of ALL blocks in written order.                        *)
(***************************************************************************)
EXTENDS NutypeTypes

Features == {"serde", "regex", "arbitrary", "new_unchecked", "schemars08"}

AllTraits == {"Debug", "Clone", "Copy", "PartialEq", "Eq", "PartialOrd", "Ord", "FromStr", "AsRef", "Deref",
              "TryFrom", "From", "Into", "Hash", "Borrow", "Display", "Default", "IntoIterator",
              "Serialize", "Deserialize", "JsonSchema", "Arbitrary"}

FeatureOfTrait(t) ==
  CASE t \in {"Serialize", "Deserialize"} -> "serde"
    [] t = "JsonSchema" -> "schemars08"
    [] t = "Arbitrary" -> "arbitrary"
    [] OTHER -> ""

-----------------------------------------------------------------------------
(* Collected views of the source                                           *)

BlocksOf(src, bk) == SelectSeq(src.blocks, LAMBDA b : b.bk = bk)
HasBlock(src, bk) == BlocksOf(src, bk) # <<>>
LastBlock(src, bk) == LET bs == BlocksOf(src, bk) IN bs[Len(bs)]

RECURSIVE ConcatAll(_)
ConcatAll(ss) == IF ss = <<>> THEN <<>> ELSE Head(ss) \o ConcatAll(Tail(ss))

\* DECLARATIVE reading: every rule of every block, in written order
AllSan(src) == ConcatAll([i \in DOMAIN BlocksOf(src, "sanitize") |-> BlocksOf(src, "sanitize")[i].san])
AllVal(src) == ConcatAll([i \in DOMAIN BlocksOf(src, "validate") |-> BlocksOf(src, "validate")[i].val])
AllDer(src) == ConcatAll([i \in DOMAIN BlocksOf(src, "derive") |-> BlocksOf(src, "derive")[i].der])

\* OPERATIONAL reading: each block kind is ASSIGNED, the last one wins
OpSan(src) == IF HasBlock(src, "sanitize") THEN LastBlock(src, "sanitize").san ELSE <<>>
OpVal(src) == IF HasBlock(src, "validate") THEN LastBlock(src, "validate").val ELSE <<>>
OpDer(src) == IF HasBlock(src, "derive") THEN LastBlock(src, "derive").der ELSE <<>>
OpDfl(src) == IF HasBlock(src, "default") THEN LastBlock(src, "default").dfl ELSE ""
HasValidateBlock(src) == HasBlock(src, "validate")

Repeated(src) == \E bk \in {"sanitize", "validate", "derive", "default"} : Len(BlocksOf(src, bk)) > 1

-----------------------------------------------------------------------------
(* Properties of item lists (used by both readings)                        *)

WSet(items) == {items[i].w : i \in DOMAIN items}
Count(items, w) == Cardinality({i \in DOMAIN items : items[i].w = w})

UnknownSan(fam, items) == \E i \in DOMAIN items : items[i].w \notin SanKinds(fam)
StdVal(fam, w) == w \in ValKinds(fam)
UnknownVal(fam, items) == \E i \in DOMAIN items : ~StdVal(fam, items[i].w) /\ items[i].w \notin {"with", "error"}
DupSan(items) == \E w \in WSet(items) : Count(items, w) > 1
DupVal(items) == \E w \in WSet(items) : Count(items, w) > 1

NStd(fam, items) == Cardinality({i \in DOMAIN items : StdVal(fam, items[i].w)})
HasW(items, w) == \E i \in DOMAIN items : items[i].w = w

\* the (validators.len(), with, error) table of RawValidation::parse
ValShape(fam, items) ==
  LET n == NStd(fam, items) w == HasW(items, "with") e == HasW(items, "error") IN
  CASE n = 0 /\ w /\ e       -> "custom"
    [] n = 0 /\ (w \/ e)     -> "bad_pair"
    [] n = 0                 -> "empty"
    [] ~w /\ ~e              -> "std"
    [] OTHER                 -> "mixed"

LowerKinds == {"greater", "greater_or_equal"}
UpperKinds == {"less", "less_or_equal"}
Rules(items, K) == {i \in DOMAIN items : items[i].w \in K}
IsLit(r) == r.sp \in {"lit", "lit_us"}      \* lit_us: a literal written with digit separators (1_005)

\* real interval described by literal numeric bounds is empty
LitEmpty(items) ==
  \E i \in Rules(items, LowerKinds) : \E j \in Rules(items, UpperKinds) :
     /\ IsLit(items[i]) /\ IsLit(items[j])
     /\ (items[i].b > items[j].b
         \/ (items[i].b = items[j].b /\ (items[i].w = "greater" \/ items[j].w = "less")))
\* integer-adjacent literal bounds that leave no integer between them (greater = 5, less = 6)
LitAdjacentEmpty(fam, items) ==
  fam = "int" /\ \E i \in Rules(items, LowerKinds) : \E j \in Rules(items, UpperKinds) :
     /\ IsLit(items[i]) /\ IsLit(items[j]) /\ items[i].w = "greater" /\ items[j].w = "less"
     /\ items[j].b = items[i].b + 1
LenContradiction(items) ==
  \E i \in Rules(items, {"len_char_min"}) : \E j \in Rules(items, {"len_char_max"}) :
     IsLit(items[i]) /\ IsLit(items[j]) /\ items[i].b > items[j].b
BothLowerOrUpper(items) ==
  Cardinality({items[i].w : i \in Rules(items, LowerKinds)}) > 1 \/ Cardinality({items[i].w : i \in Rules(items, UpperKinds)}) > 1
\* a regex literal that Regex::new refuses: a syntax error ("re_invalid") or a pattern whose program exceeds the size limit ("re_toobig")
BadRegexLit(items) == \E i \in DOMAIN items : items[i].w = "regex" /\ items[i].fn \in {"re_invalid", "re_toobig"} /\ items[i].sp = "lit"

HasFiniteStd(fam, items) == ValShape(fam, items) = "std" /\ HasW(items, "finite")
Validated(fam, items, hasBlock) == hasBlock

-----------------------------------------------------------------------------
(* Rust's own rules about the derived traits (what rustc enforces on the   *)
(* expansion, independent of nutype)                                       *)

\* traits the catalogue inner type of the "any" family (Vec<i32>, Vec<T>) does not offer
AnyInnerLacks == {"Copy", "Display", "FromStr"}

RustTraitConflict(fam, ty, D, validated) ==
  \/ ("Copy" \in D /\ "Clone" \notin D)
  \/ ("Eq" \in D /\ "PartialEq" \notin D)
  \/ ("PartialOrd" \in D /\ "PartialEq" \notin D)
  \/ ("Ord" \in D /\ ("Eq" \notin D \/ "PartialOrd" \notin D))
  \/ ("From" \in D /\ "TryFrom" \in D)                 \* blanket TryFrom from From: conflicting impls
  \/ (fam = "any" /\ "From" \in D /\ validated)        \* generated From calls a `new` that does not exist
  \/ (fam = "any" /\ ty # "T" /\ D \cap AnyInnerLacks # {})   \* the catalogue inner types (Vec<i32>, ..) have no Copy / Display / FromStr;
                                                             \* a bare type parameter gets the bound from the generated impl

WrongFamilyTrait(fam, D) ==
  \/ (fam = "float" /\ "Hash" \in D)
  \/ (fam = "string" /\ "Copy" \in D)
  \/ (fam # "any" /\ "IntoIterator" \in D)
  \/ (fam = "any" /\ "JsonSchema" \in D)

\* a lifetime among the generic parameters (they are rendered as written: "'a", "T: Ord", ...)
LifetimeParams == {"'a", "'b"}
HasLifetimeParam(src) == \E i \in DOMAIN src.tparams : src.tparams[i] \in LifetimeParams

ArbUnsupported(fam, san, val, validated) ==
  \/ (fam = "any" /\ validated)
  \/ (validated /\ ValShape(fam, val) = "custom")
  \/ (validated /\ (HasW(val, "predicate") \/ HasW(val, "regex")))
  \/ (fam \in {"float", "string"} /\ validated /\ HasW(san, "with"))

-----------------------------------------------------------------------------
(* DECLARATIVE reference predicate (C08)                                   *)

Class(src) ==
  LET fam == src.fam
      san == AllSan(src) val == AllVal(src) D == NRange(AllDer(src))
      validated == HasValidateBlock(src)
      shape == ValShape(fam, val)
      mustReject ==
        \/ src.fieldvis # ""                                         \* visible inner field
        \/ src.outer \in {"derive", "foreign", "derive_path", "tool"}                       \* #[derive] / foreign attribute
        \/ UnknownSan(fam, san) \/ UnknownVal(fam, val)              \* unknown / wrong-family / wrong-case
        \/ \E t \in D : t \notin AllTraits
        \/ WrongFamilyTrait(fam, D)
        \/ DupSan(san) \/ DupVal(val)                                \* duplicates
        \/ ({"lowercase", "uppercase"} \subseteq WSet(san))
        \/ (fam \in {"int", "float"} /\ LitEmpty(val))               \* literal bounds that exclude each other
        \/ (fam = "string" /\ LenContradiction(val))
        \/ (validated /\ shape \in {"bad_pair", "mixed", "empty"})   \* with without error, mixed with built-ins
        \/ ("From" \in D /\ validated)                               \* From alongside validators
        \/ (fam = "float" /\ ({"Eq", "Ord"} \cap D # {}) /\ ~HasFiniteStd(fam, val))
        \/ ("Default" \in D /\ ~HasBlock(src, "default"))
        \/ BadRegexLit(val)
        \/ (HasW(val, "regex") /\ "regex" \notin src.feats)          \* feature-gated items without their feature
        \/ \E t \in D : FeatureOfTrait(t) # "" /\ FeatureOfTrait(t) \notin src.feats
        \/ (HasBlock(src, "new_unchecked") /\ "new_unchecked" \notin src.feats)
        \/ HasBlock(src, "bogus")
        \/ RustTraitConflict(fam, src.ty, D, validated)
      dontCare ==
        \/ src.shape # "tuple"
        \/ LitAdjacentEmpty(fam, val)
        \/ BothLowerOrUpper(val)
        \/ ("Arbitrary" \in D /\ ArbUnsupported(fam, san, val, validated))
        \/ (HasBlock(src, "default") /\ "Default" \notin D)
        \/ Cardinality(D) # Len(AllDer(src))                         \* a trait listed twice
        \/ (HasBlock(src, "const_fn") /\ fam \in {"string", "any"})
        \/ ("Arbitrary" \in D /\ HasLifetimeParam(src))             \* a borrowing inner type ties the Arbitrary lifetime to its own
        \/ ("IntoIterator" \in D /\ HasLifetimeParam(src))          \* (the catalogue's borrowing inner type Cow<[_]> is not iterable by reference)
        \/ Repeated(src)                                             \* C02 decides repeated blocks, not C08
        \/ src.outer = "doc"
  IN IF Repeated(src) THEN "dontcare"      \* repeated blocks are C02's subject (either rejected or all enforced), not C08's
     ELSE IF mustReject THEN "reject" ELSE IF dontCare THEN "dontcare" ELSE "accept"

-----------------------------------------------------------------------------
(* OPERATIONAL pipeline.  Each stage returns "" (pass) or the stage name.  *)

OpParseMeta(src) ==
  IF src.outer \in {"derive", "foreign", "derive_path", "tool"} THEN "meta:attr"          \* validate_supported_attrs / intercept_derive_macro
  ELSE IF src.shape # "tuple" THEN "meta:shape"
  ELSE IF src.fieldvis # "" THEN "meta:fieldvis"
  ELSE ""

\* the attribute loop; every block is parsed (so an error in ANY block rejects), then assigned
OpParseBlocks(src) ==
  LET fam == src.fam
      bad(b) ==
        CASE b.bk = "sanitize" -> UnknownSan(fam, b.san)
          [] b.bk = "validate" -> \/ UnknownVal(fam, b.val)
                                  \/ (HasW(b.val, "regex") /\ "regex" \notin src.feats)
                                  \/ Count(b.val, "with") > 1 \/ Count(b.val, "error") > 1
                                  \/ ValShape(fam, b.val) \in {"bad_pair", "mixed", "empty"}
          [] b.bk = "derive"   -> \E i \in DOMAIN b.der :
                                     \/ b.der[i] \notin AllTraits
                                     \/ (FeatureOfTrait(b.der[i]) # "" /\ FeatureOfTrait(b.der[i]) \notin src.feats)
          [] b.bk = "new_unchecked" -> "new_unchecked" \notin src.feats
          [] b.bk = "bogus"    -> TRUE
          [] OTHER             -> FALSE
  IN IF \E i \in DOMAIN src.blocks : bad(src.blocks[i]) THEN "parse"
     ELSE IF Repeated(src) THEN "parse:duplicate_block"      \* fix 262825e: a repeated block is an error, not an assignment
     ELSE ""

\* validate_numeric_bounds (common/validate.rs:103-156) on the ASSIGNED validators
OpNumericBounds(val) ==
  LET g  == Rules(val, {"greater"}) ge == Rules(val, {"greater_or_equal"})
      ls == Rules(val, {"less"})    le == Rules(val, {"less_or_equal"})
      lit(S) == {i \in S : IsLit(val[i])}
  IN \/ (lit(g) # {} /\ lit(ge) # {})
     \/ (lit(ls) # {} /\ lit(le) # {})
     \/ \E i \in lit(g) : \E j \in lit(ls) : val[i].b >= val[j].b
     \/ \E i \in lit(g) : \E j \in lit(le) : val[i].b >= val[j].b      \* fix b519546: one exclusive side
     \/ \E i \in lit(ge) : \E j \in lit(ls) : val[i].b >= val[j].b     \* excludes the common value
     \/ \E i \in lit(g) \cup lit(ge) : \E j \in lit(ls) \cup lit(le) : val[i].b > val[j].b

OpValidateGuard(src) ==
  LET fam == src.fam san == OpSan(src) val == OpVal(src) IN
  IF DupSan(san) THEN "guard:dup_san"
  ELSE IF {"lowercase", "uppercase"} \subseteq WSet(san) THEN "guard:case"
  ELSE IF ~HasValidateBlock(src) \/ ValShape(fam, val) = "custom" THEN ""
  ELSE IF DupVal(val) THEN "guard:dup_val"
  ELSE IF fam \in {"int", "float"} /\ OpNumericBounds(val) THEN "guard:bounds"
  ELSE IF fam = "string" /\ LenContradiction(val) THEN "guard:len"
  ELSE IF fam = "string" /\ BadRegexLit(val) THEN "guard:regex"
  ELSE ""

OpValidateTraits(src) ==
  LET fam == src.fam D == NRange(OpDer(src)) validated == HasValidateBlock(src) IN
  IF "From" \in D /\ "TryFrom" \in D THEN "traits:from_tryfrom"
  ELSE IF fam # "any" /\ "From" \in D /\ validated THEN "traits:from"
  ELSE IF WrongFamilyTrait(fam, D) THEN "traits:family"
  ELSE IF fam = "float" /\ ({"Eq", "Ord"} \cap D # {}) /\ ~HasFiniteStd(fam, OpVal(src)) THEN "traits:finite"
  ELSE IF fam = "float" /\ "Eq" \in D /\ "PartialEq" \notin D THEN "traits:eq"
  ELSE IF fam = "float" /\ "Ord" \in D /\ ("PartialOrd" \notin D \/ "Eq" \notin D) THEN "traits:ord"
  ELSE ""

OpGenerate(src) ==
  LET fam == src.fam D == NRange(OpDer(src)) validated == HasValidateBlock(src) IN
  IF "Default" \in D /\ OpDfl(src) = "" THEN "gen:default"
  \* NumericBound::lower/upper panic when both kinds of a lower (upper) bound are present (common/models.rs:632-662)
  ELSE IF fam \in {"int", "float"} /\ validated /\ ValShape(fam, OpVal(src)) = "std" /\ BothLowerOrUpper(OpVal(src)) THEN "gen:panic"
  ELSE IF "Arbitrary" \in D /\ ArbUnsupported(fam, OpSan(src), OpVal(src), validated) THEN "gen:arbitrary"
  ELSE ""

OpRustc(src) ==
  LET D == NRange(OpDer(src)) validated == HasValidateBlock(src) IN
  IF RustTraitConflict(src.fam, src.ty, D, validated) THEN "rustc:traits" ELSE ""

OpStages(src) == <<OpParseMeta(src), OpParseBlocks(src), OpValidateGuard(src), OpValidateTraits(src), OpGenerate(src), OpRustc(src)>>

\* the first failing stage, or "" when the declaration is accepted
OpVerdict(src) ==
  LET st == OpStages(src)
      F == {i \in DOMAIN st : st[i] # ""}
  IN IF F = {} THEN "" ELSE st[NMin(F)]

OpAccepts(src) == OpVerdict(src) = ""

-----------------------------------------------------------------------------
(* C08, last clause: what the macro cannot evaluate at expansion time      *)
(* (expression bounds, the default expression) is checked by unit tests    *)
(* generated into the user's crate.                                        *)

\* bounds (any spelling) whose real interval is empty
AnyEmpty(items) ==
  \E i \in Rules(items, LowerKinds) : \E j \in Rules(items, UpperKinds) :
     \/ items[i].b > items[j].b
     \/ (items[i].b = items[j].b /\ (items[i].w = "greater" \/ items[j].w = "less"))
AnyLenEmpty(items) ==
  \E i \in Rules(items, {"len_char_min"}) : \E j \in Rules(items, {"len_char_max"}) : items[i].b > items[j].b

\* DECLARATIVE: must some generated test fail?
MustFailATest(src) ==
  LET val == AllVal(src) D == NRange(AllDer(src)) IN
  \/ (src.fam \in {"int", "float"} /\ AnyEmpty(val))
  \/ (src.fam = "string" /\ AnyLenEmpty(val))
  \/ (HasValidateBlock(src) /\ "Default" \in D /\ OpDfl(src) = "invalid")

\* OPERATIONAL: the generated tests and their results (common/gen/tests.rs, string/gen/tests.rs):
\* `assert!(upper > lower)` when a side is exclusive, else `assert!(upper >= lower)` (since the fix; before it
\* `>=` whatever the exclusivity); `T::default()` then try_new of its inner value
OpTests(src) ==
  LET val == OpVal(src) D == NRange(OpDer(src))
      lows == Rules(val, LowerKinds) ups == Rules(val, UpperKinds)
      bounds == IF src.fam \in {"int", "float"} /\ HasValidateBlock(src) /\ ValShape(src.fam, val) = "std" /\ lows # {} /\ ups # {}
                THEN {<<"should_have_consistent_lower_and_upper_boundaries",
                        IF \E i \in lows : \E j \in ups :
                              \/ val[j].b < val[i].b
                              \/ (val[j].b = val[i].b /\ \E k \in lows \cup ups : val[k].w \in {"greater", "less"})
                        THEN "FAILED" ELSE "ok">>}
                ELSE {}
      lens == IF src.fam = "string" /\ HasValidateBlock(src) /\ ValShape(src.fam, val) = "std"
                 /\ Rules(val, {"len_char_min"}) # {} /\ Rules(val, {"len_char_max"}) # {}
              THEN {<<"should_have_consistent_len_char_boundaries", IF AnyLenEmpty(val) THEN "FAILED" ELSE "ok">>}
              ELSE {}
      dflt == IF HasValidateBlock(src) /\ OpDfl(src) # "" /\ src.tparams = <<>>
              THEN {<<"should_have_valid_default_value", IF OpDfl(src) = "invalid" THEN "FAILED" ELSE "ok">>}
              ELSE {}
  IN bounds \cup lens \cup dflt

-----------------------------------------------------------------------------
(* C02: an accepted declaration enforces every written rule                *)

\* what the accepted declaration enforces (operational) vs what was written
Faithful(src) ==
  OpAccepts(src) => (OpSan(src) = AllSan(src) /\ OpVal(src) = AllVal(src) /\ NRange(OpDer(src)) = NRange(AllDer(src)))

=============================================================================

---------------------------- MODULE NutypeTypes ----------------------------
(***************************************************************************)
(* Shared vocabulary of the nutype specification.                          *)
(*                                                                         *)
(* A *declaration* is a record                                             *)
(*   [fam, ty, san, vmode, val, traits, dflt, flags]                       *)
(* (see NutypeValue.tla).  This module fixes the names of sanitizer and    *)
(* validator kinds, the error-variant naming, and the value algebra of     *)
(* each inner-type family.                                                 *)
(*                                                                         *)
(* Value representations (the harness projects concrete Rust values onto   *)
(* these; see DESIGN.md section 2.1 and harness/py/project.py):            *)
(*   int     a TLC integer.  For 8/16/32-bit signed and 8/16-bit unsigned  *)
(*           types it is the concrete value; for wider types it is an      *)
(*           order-preserving rank within the declaration's landmark table *)
(*   float   [c |-> "num"|"nan", r |-> rank, u |-> bit-pattern id]         *)
(*           +-inf are "num" with the extreme ranks; +0.0 and -0.0 share a *)
(*           rank and differ in u; every NaN payload has its own u.        *)
(*   string  sequence of Unicode scalar values (integers)                  *)
(*   any     sequence of integers (the catalogue inner type is Vec<i32>)   *)
(***************************************************************************)
EXTENDS Integers, Sequences, FiniteSets, TLC

Families == {"int", "float", "string", "any"}

BoundKinds == {"greater", "greater_or_equal", "less", "less_or_equal"}

ValKinds(fam) ==
  CASE fam = "int"    -> BoundKinds \cup {"predicate"}
    [] fam = "float"  -> BoundKinds \cup {"predicate", "finite"}
    [] fam = "string" -> {"len_char_min", "len_char_max", "not_empty", "predicate", "regex"}
    [] fam = "any"    -> {"predicate"}

SanKinds(fam) ==
  CASE fam = "string" -> {"trim", "lowercase", "uppercase", "with"}
    [] OTHER          -> {"with"}

\* Name of the error variant generated for a validator kind
\* (*/gen/error.rs: one variant per validator, `<Kind>Violated`).
Variant(k) ==
  CASE k = "greater"          -> "GreaterViolated"
    [] k = "greater_or_equal" -> "GreaterOrEqualViolated"
    [] k = "less"             -> "LessViolated"
    [] k = "less_or_equal"    -> "LessOrEqualViolated"
    [] k = "predicate"        -> "PredicateViolated"
    [] k = "finite"           -> "FiniteViolated"
    [] k = "len_char_min"     -> "LenCharMinViolated"
    [] k = "len_char_max"     -> "LenCharMaxViolated"
    [] k = "not_empty"        -> "NotEmptyViolated"
    [] k = "regex"            -> "RegexViolated"
    [] OTHER                  -> "?"

-----------------------------------------------------------------------------
(* Outcomes of a call.  Homogeneous records: every outcome has k, v, e.     *)

NoVal == <<>>   \* placeholder in outcomes that carry no value

OkOut(v)      == [k |-> "ok",    v |-> <<v>>, e |-> ""]
ErrOut(e)     == [k |-> "err",   v |-> <<>>,  e |-> e]
PanicOut      == [k |-> "panic", v |-> <<>>,  e |-> ""]
ParseErrOut   == [k |-> "perr",  v |-> <<>>,  e |-> ""]   \* inner FromStr failed
DeErrOut      == [k |-> "derr",  v |-> <<>>,  e |-> ""]   \* inner Deserialize failed
ArbErrOut     == [k |-> "aerr",  v |-> <<>>,  e |-> ""]   \* arbitrary::Error
NoneOut       == [k |-> "none",  v |-> <<>>,  e |-> ""]

IsOk(o) == o.k = "ok"
OutVal(o) == o.v[1]

-----------------------------------------------------------------------------
(* Sequence helpers                                                         *)

NMin(S) == CHOOSE x \in S : \A y \in S : x <= y
NMax(S) == CHOOSE x \in S : \A y \in S : x >= y

RECURSIVE NFoldL(_, _, _)
NFoldL(Op(_, _), acc, s) ==
  IF s = <<>> THEN acc ELSE NFoldL(Op, Op(acc, Head(s)), Tail(s))

NReverse(s) == [i \in 1..Len(s) |-> s[Len(s) + 1 - i]]

NInSeq(x, s) == \E i \in DOMAIN s : s[i] = x

NRange(s) == {s[i] : i \in DOMAIN s}

\* all sequences without repetition over a set S, of every length
RECURSIVE Perms(_)
Perms(S) ==
  IF S = {} THEN {<<>>}
  ELSE UNION {{<<x>> \o p : p \in Perms(S \ {x})} : x \in S}

Arrangements(S) == UNION {Perms(T) : T \in SUBSET S}

=============================================================================

------------------------------- MODULE MC_Msg -------------------------------
(* The message model as a state machine: pick a family, a bound-validator    *)
(* kind and a cell; the error is rendered; TLC checks truthfulness in every  *)
(* reachable state (see NutypeMsg.tla).                                      *)
EXTENDS NutypeMsg

VARIABLES fam, kind, cell, stated
mvars == <<fam, kind, cell, stated>>

MInit == /\ fam \in {"int", "float", "string"}
         /\ kind \in BoundKindsOf(fam)
         /\ cell \in Cells
         /\ stated = "none"

\* the error is displayed
Render == /\ stated = "none"
          /\ stated' = OpPhrase(fam, kind)
          /\ UNCHANGED <<fam, kind, cell>>

MSpec == MInit /\ [][Render]_mvars

\* every rendered message is truthful in every cell, except the listed candidates
TruthfulOrKnown ==
  (stated # "none") => ((Holds(stated, cell) <=> Accepts(kind, cell)) \/ <<fam, kind>> \in KnownUntruthful)

\* one row per (family, kind): the cases the harness instantiates
EmitCase == (stated = "none" /\ cell = "at") => PrintT(<<"CASE", fam, kind>>)

\* the candidate list is exact: each listed pair really is untruthful in some cell
CandidatesExact ==
  \A p \in KnownUntruthful : ~Truthful(OpPhrase(p[1], p[2]), p[2])

=============================================================================

---------------------------- MODULE Trace_Value ----------------------------
(***************************************************************************)
(* Trace validation of recorded executions of the REAL generated code      *)
(* against the run-time layer (binding B1/B2 of DESIGN.md).                *)
(*                                                                         *)
(* The trace (IOEnv.TRACE, ndjson) is a sequence of events; one event is   *)
(* the record of one driver batch: a declaration id, an entry point, the   *)
(* environment observations the specification does not own (std's string   *)
(* primitives on the strings that occurred), and parallel sequences of     *)
(* inputs and observed outcomes.  IOEnv.DECLS is the declaration table.    *)
(*                                                                         *)
(* Each step consumes one event and judges every (input, outcome) pair:    *)
(*   - against the DECLARATIVE DeclCall: a mismatch is reported as BAD     *)
(*     (the harness turns it into VIOLATION / KNOWN-FINDING);              *)
(*   - against the OPERATIONAL OpCall: a mismatch that is not BAD is       *)
(*     reported as DRIFT (model no longer transcribes the code).           *)
(* The step never blocks, so the rest of the trace is always examined.     *)
(*                                                                         *)
(* State carried along the trace: the NaN policy inferred so far.  The     *)
(* properties do not say whether NaN satisfies `less = b`; the code must   *)
(* follow ONE policy per bound kind at every entry point, and the trace    *)
(* spec infers it: the first observation that pins a kind fixes it, any    *)
(* later observation that needs the opposite is BAD.                       *)
(***************************************************************************)
EXTENDS NutypeValue, Json, IOUtils, TLCExt

Rec   == ndJsonDeserialize(IOEnv.TRACE)
Decls == JsonDeserialize(IOEnv.DECLS)

VARIABLES
  l,      \* index of the next event
  pol,    \* [BoundKinds -> {"?", "pass", "viol"}]: inferred NaN policy
  nbad,   \* number of BAD pairs so far
  ndrift, \* number of DRIFT pairs so far
  npairs  \* number of judged pairs so far

tvars == <<l, pol, nbad, ndrift, npairs>>

\* environment lookup: env[name] is a sequence of <<input, output>> pairs
TracePrim(n, x, env) ==
  LET tbl == env[n]
      S == {i \in DOMAIN tbl : tbl[i][1] = x}
  IN IF S = {} THEN Assert(FALSE, <<"environment table lacks an entry", n, x>>)
     ELSE tbl[CHOOSE i \in S : TRUE][2]

Policies == [BoundKinds -> BOOLEAN]
Compatible(nv, p) == \A k \in BoundKinds : (p[k] = "pass" => ~nv[k]) /\ (p[k] = "viol" => nv[k])

\* does judging this pair depend on the NaN policy?
NanMatters(d, inp, env) ==
  /\ d.fam = "float" /\ d.vmode = "std" /\ inp.ok
  /\ LET s == SanAll(d, IF inp.v = <<>> THEN d.dflt[1] ELSE inp.v[1], env) IN
     \E i \in DOMAIN d.val : NanInvolved(d.fam, d.val[i], s)

\* per-pair environment observation (string family only)
EnvOf(e, i) == IF e.envs = <<>> THEN <<>> ELSE e.envs[i]

TraceInit == l = 1 /\ pol = [k \in BoundKinds |-> "?"] /\ nbad = 0 /\ ndrift = 0 /\ npairs = 0

Step ==
  /\ l <= Len(Rec)
  /\ LET e   == Rec[l]
         d   == Decls[e.d]
         N   == DOMAIN e.ins
         nanI == {i \in N : NanMatters(d, e.ins[i], EnvOf(e, i))}
         plain == N \ nanI
         anyNv == CodeNanPolicy
         badPlain == {i \in plain : e.outs[i] # DeclCall(d, e.ep, e.ins[i], EnvOf(e, i), anyNv)}
         cands == IF nanI = {} THEN {anyNv}
                  ELSE {nv \in Policies : Compatible(nv, pol) /\
                          \A i \in nanI : e.outs[i] = DeclCall(d, e.ep, e.ins[i], EnvOf(e, i), nv)}
         badNan == IF cands = {} THEN nanI ELSE {}
         bad == badPlain \cup badNan
         drift == {i \in N \ bad : e.outs[i] # OpCall(d, e.ep, e.ins[i], EnvOf(e, i))}
     IN
       /\ \A i \in bad :
            PrintT(<<"BAD", l, i, ToJson([d |-> e.d, ep |-> e.ep, inp |-> e.ins[i], got |-> e.outs[i],
                      want |-> DeclCall(d, e.ep, e.ins[i], EnvOf(e, i), anyNv),
                      nan |-> (i \in nanI)])>>)
       /\ \A i \in drift :
            PrintT(<<"DRIFT", l, i, ToJson([d |-> e.d, ep |-> e.ep, inp |-> e.ins[i], got |-> e.outs[i],
                      model |-> OpCall(d, e.ep, e.ins[i], EnvOf(e, i))])>>)
       /\ nbad' = nbad + Cardinality(bad)
       /\ ndrift' = ndrift + Cardinality(drift)
       /\ npairs' = npairs + Cardinality(N)
       /\ pol' = IF nanI = {} \/ cands = {} THEN pol
                 ELSE [k \in BoundKinds |->
                         IF \A nv \in cands : nv[k] THEN "viol"
                         ELSE IF \A nv \in cands : ~nv[k] THEN "pass" ELSE pol[k]]
  /\ l' = l + 1

TraceSpec == TraceInit /\ [][Step]_tvars

\* every event was consumed: one state per event plus the initial state
TraceConsumed ==
  IF TLCGet("stats").diameter - 1 = Len(Rec) THEN TRUE
  ELSE PrintT(<<"UNCONSUMED", TLCGet("stats").diameter - 1, Len(Rec)>>) /\ FALSE

\* final report, printed when the last event has been consumed
Report == (l = Len(Rec) + 1) =>
  PrintT(<<"SUMMARY", ToJson([events |-> Len(Rec), pairs |-> npairs, bad |-> nbad, drift |-> ndrift, pol |-> pol])>>)

=============================================================================

"""Checks built on the run-time layer (NutypeValue / ValueMachine / Trace_Value)."""
import json
import os
import random

from .common import WORK, ToolError, Verdict, Timer, ensure_dir, log, seed, tier
from .crate import Crate, shard
from .driver_value import render_module, render_main
from .render_value import render_decl_only
from . import value_layer as VL
from .tlc import validate_trace


def build_and_run(name, decls, rows_of, features, deps, nshards=4, release=False):
    """decls: list of concrete declarations. rows_of(d) -> script rows.
    Returns (obs paths, rejected {id: msgs}, alive ids)."""
    by_id = {d["id"]: d for d in decls}
    shards = shard(decls, nshards)
    crates = []
    for i, sh_decls in enumerate(shards):
        files = {d["id"]: render_module(d) for d in sh_decls}
        crates.append(Crate("%s_s%d" % (name, i), features, deps, files, render_main))
    for c in crates:
        c.write()
    for c in crates:
        c.build(release=release)
    obs_paths, rejected, alive = [], {}, []
    rundir = ensure_dir(os.path.join(WORK, "run", name))
    import concurrent.futures as cf

    def run_one(c):
        script = os.path.join(rundir, c.name + ".script.ndjson")
        obs = os.path.join(rundir, c.name + ".obs.ndjson")
        with open(script, "w") as f:
            for k in c.alive:
                for row in rows_of(by_id[k]):
                    f.write(json.dumps(row) + "\n")
        c.run([script, obs])
        return obs
    with cf.ThreadPoolExecutor(max_workers=len(crates)) as ex:
        obs_paths = list(ex.map(run_one, crates))
    for c in crates:
        rejected.update(c.rejected)
        alive.extend(c.alive)
    return obs_paths, rejected, alive


def describe_decl(d):
    return render_decl_only(d)


def judge_trace(prop, verdict, name, decls, obs_paths, stats, want_eps=None):
    """project observations, validate with TLC, feed the verdict. Returns summary."""
    by_id = {d["id"]: d for d in decls}
    table, events, index = {}, [], []
    for p in obs_paths:
        t, e, ix = VL.project(by_id, p)
        table.update(t)
        events.extend(e)
        index.extend(ix)
    tdir = os.path.join(WORK, "trace", name)
    tp, dp = VL.write_trace(tdir, table, events)
    summary, bad, drift, r = validate_trace("Trace_Value", "Trace_Value.cfg", "trace_" + name, tp, dp)
    stats["trace_events"] = stats.get("trace_events", 0) + summary["events"]
    stats["trace_pairs"] = stats.get("trace_pairs", 0) + summary["pairs"]
    stats["trace_states"] = stats.get("trace_states", 0) + r.distinct
    stats.setdefault("nan_policy", {}).update({name: summary["pol"]})
    verdict.drift += len(drift)
    for (l, i, obj) in bad:
        did, ep, raw = index[l - 1]
        inp, out = raw[i - 1]
        d = by_id[did]
        rec = {
            "property": prop, "decl": did, "family": d["fam"], "ty": d["ty"], "ep": ep,
            "input": inp, "observed": out, "model_input": obj["inp"], "model_observed": obj["got"],
            "declarative_outcome": obj["want"], "nan_involved": obj["nan"],
            "declaration": describe_decl(d),
            "validators": [r_["k"] for r_ in d["val"]], "sanitizers": [s["k"] + ":" + s["fn"] for s in d["san"]],
            "observed_kind": out.get("k"), "want_kind": obj["want"]["k"],
            "summary": "%s %s %s(%s): observed %s, declarative statement demands %s" % (
                did, d["ty"], ep, json.dumps(inp), json.dumps(out), json.dumps(obj["want"])),
        }
        verdict.violation(rec)
    for (l, i, obj) in drift[:5]:
        did, ep, raw = index[l - 1]
        verdict.notes.append("drift at %s %s: %s" % (did, ep, json.dumps(obj)[:300]))
    return summary

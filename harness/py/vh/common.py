"""Paths, subprocess helpers, evidence writing, known-findings matching."""
import hashlib
import json
import os
import subprocess
import sys
import time

VERIF = os.path.dirname(os.path.dirname(os.path.dirname(os.path.dirname(os.path.abspath(__file__)))))
REPO = os.environ.get("VERIF_REPO", "/repo")
SPEC = os.path.join(VERIF, "spec")
WORK = os.environ.get("VERIF_WORK") or os.path.join(VERIF, "work")
WS = os.path.join(WORK, "ws")
EVID = os.environ.get("VERIF_EVID") or os.path.join(VERIF, "evidence")
REPLAYS = os.environ.get("VERIF_REPLAYS") or os.path.join(VERIF, "replays")
SUPPORT = os.path.join(VERIF, "harness", "support")

EXIT_OK, EXIT_VIOLATION, EXIT_TOOL = 0, 1, 2


class ToolError(Exception):
    """A problem of the machinery itself (never a property violation): exit 2."""


def seed():
    try:
        return int(os.environ.get("VERIF_SEED", "1"))
    except ValueError:
        return 1


def tier(default="quick"):
    t = os.environ.get("VERIF_TIER", default)
    return t if t in ("quick", "thorough") else default


def ensure_dir(p):
    os.makedirs(p, exist_ok=True)
    return p


def sh(cmd, cwd=None, env=None, timeout=None, check=False, capture=True):
    e = dict(os.environ)
    if env:
        e.update(env)
    p = subprocess.run(cmd, cwd=cwd, env=e, timeout=timeout, shell=isinstance(cmd, str),
                       stdout=subprocess.PIPE if capture else None,
                       stderr=subprocess.STDOUT if capture else None, text=True)
    if check and p.returncode != 0:
        raise ToolError("command failed (%s): %s\n%s" % (p.returncode, cmd, (p.stdout or "")[-4000:]))
    return p


def h8(s):
    return hashlib.sha256(s.encode()).hexdigest()[:8]


def write_json(path, obj):
    ensure_dir(os.path.dirname(path))
    tmp = path + ".tmp"
    with open(tmp, "w") as f:
        json.dump(obj, f, indent=1, sort_keys=False)
        f.write("\n")
    os.replace(tmp, path)


def log(*a):
    print(*a, file=sys.stderr, flush=True)


class Timer:
    def __init__(self):
        self.t0 = time.time()

    def s(self):
        return round(time.time() - self.t0, 2)


# ---------------------------------------------------------------- known findings

def load_known():
    p = os.path.join(VERIF, "known_findings.json")
    if not os.path.exists(p):
        return {"open": [], "fixed": []}
    with open(p) as f:
        return json.load(f)


def match_known(prop, rec, known=None):
    """rec: flat dict describing one violation. An open finding matches when its
    property equals `prop` and every key of its `pattern` equals rec[key]
    (lists in the pattern mean "one of")."""
    known = known or load_known()
    for k in known.get("open", []):
        if k.get("property") != prop:
            continue
        pat = k.get("pattern", {})
        ok = True
        for key, want in pat.items():
            got = rec.get(key)
            if isinstance(want, list):
                if got not in want:
                    ok = False
                    break
            elif got != want:
                ok = False
                break
        if ok:
            return k
    return None


# ---------------------------------------------------------------- evidence / verdict

class Verdict:
    """Collects violations, known findings and drift for one property check."""

    def __init__(self, prop):
        self.prop = prop
        self.violations = []     # (flat record, replay path)
        self.known = {}          # finding id -> count
        self.known_desc = {}
        self.drift = 0
        self.notes = []
        self._known = load_known()

    def violation(self, rec):
        k = match_known(self.prop, rec, self._known)
        if k is not None:
            kid = k.get("id", "?")
            self.known[kid] = self.known.get(kid, 0) + 1
            self.known_desc[kid] = k.get("what", "")
            return False
        idx = len(self.violations)
        path = os.path.join(REPLAYS, self.prop, "v%03d_%s.json" % (idx, h8(json.dumps(rec, sort_keys=True))))
        if idx < 50:
            write_json(path, rec)
        self.violations.append((rec, path))
        return True

    def finish(self, evidence, wall_s):
        """Print verdict lines, write evidence, return exit code."""
        for kid, n in sorted(self.known.items()):
            print("KNOWN-FINDING: property=%s %s (%s; %d observations)" % (self.prop, self.known_desc[kid], kid, n))
        if self.drift:
            print("MODEL-DRIFT: property=%s %d observations differ from the operational model but satisfy the declarative statement" % (self.prop, self.drift))
        for n in self.notes:
            print("NOTE: " + n)
        seen = set()
        for rec, path in self.violations[:50]:
            print("VIOLATION property=%s replay=%s" % (self.prop, path))
            key = rec.get("summary", "")
            if key and key not in seen and len(seen) < 12:
                seen.add(key)
                print("  " + key)
        evidence = dict(evidence)
        evidence["property_id"] = self.prop
        evidence["violations"] = len(self.violations)
        evidence["wall_s"] = wall_s
        evidence.setdefault("seed", seed())
        cov = evidence.setdefault("coverage", {})
        cov["known_findings_observed"] = self.known
        cov["model_drift"] = self.drift
        write_json(os.path.join(EVID, self.prop + ".json"), evidence)
        if self.violations:
            tags = {}
            for rec, _p in self.violations:
                tkey = "%s/%s" % (rec.get("tag", ""), rec.get("family", rec.get("ty", "")))
                tags[tkey] = tags.get(tkey, 0) + 1
            print("violations by tag/family: %s" % json.dumps(tags, sort_keys=True))
            print("RESULT property=%s violations=%d" % (self.prop, len(self.violations)))
            return EXIT_VIOLATION
        print("RESULT property=%s ok" % self.prop)
        return EXIT_OK

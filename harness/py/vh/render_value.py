"""Rendering of run-time-layer declarations (NutypeValue.tla records) to Rust modules
with a table-driven driver, for the four inner-type families.

A *concrete declaration* is the TLC record with concrete values:
  int    python ints,   float  bit patterns (python ints),   string  lengths (ints),
plus  id, name ("Nt"), flags (const_fn), generic (bool).
"""
from .values import INT_TYPES, FLOAT_TYPES, f_enc

TRAIT_RENDER = {"Serialize": "Serialize", "Deserialize": "Deserialize"}

# ------------------------------------------------------------------ literals

FLOAT_LITS = {}   # (ty, bits) -> literal text, filled by float_landmarks()


def int_lit(v):
    return str(v)


def float_expr(ty, bits):
    """an expression (not a literal) denoting exactly this bit pattern."""
    return "%s::from_bits(0x%x)" % (ty, bits)


def float_lit(ty, bits):
    return FLOAT_LITS[(ty, bits)]


def val_src(d, v, lit=True):
    if d["fam"] == "int":
        return int_lit(v)
    if d["fam"] == "float":
        return float_lit(d["ty"], v) if lit and (d["ty"], v) in FLOAT_LITS else float_expr(d["ty"], v)
    return str(v)


# ------------------------------------------------------------------ catalogue -> Rust

def san_closure(d, s):
    fam, ty, fn, p = d["fam"], d["ty"], s["fn"], s["p"]
    if fam in ("int", "float"):
        if fn == "clamp":
            return "|v: %s| v.clamp(%s, %s)" % (ty, val_src(d, p[0]), val_src(d, p[1]))
        if fn == "dbl_sat":
            return "|v: %s| v.saturating_mul(2)" % ty
        if fn == "to_k":
            return "|v: %s| if v == %s { %s } else { v }" % (ty, val_src(d, p[0]), val_src(d, p[1]))
        if fn == "nan_to":
            return "|v: %s| if v.is_nan() { %s } else { v }" % (ty, val_src(d, p[0]))
    if fam == "string":
        if fn == "rev":
            return "|s: String| s.chars().rev().collect::<String>()"
        if fn == "bang":
            return "|mut s: String| { s.push('!'); s }"
        if fn == "tag_a":
            # (an explicit `return`: a closure spliced into the generated function instead of being called would leave it early)
            return "|mut s: String| { s.push('A'); return s; }"
        if fn == "take2":
            return "|s: String| { return s.chars().take(2).collect::<String>(); }"
    if fam == "any" and d.get("ty") in ("Point", "Gen<Point>"):
        if fn == "rev":
            return "|p: Point| Point(p.1, p.0)"
    if fam == "any" and d.get("ty") == "Cow<[i32]>":
        if fn == "sort":
            return "|mut v| { v.to_mut().sort(); v }"
        if fn == "rev":
            return "|mut v| { v.to_mut().reverse(); v }"
        if fn == "take2":
            return "|mut v| { v.to_mut().truncate(2); v }"
    if fam == "any":
        if fn == "sort":
            return "|mut v| { v.sort(); v }"
        if fn == "rev":
            return "|mut v| { v.reverse(); v }"
        if fn == "take2":
            return "|mut v| { v.truncate(2); v }"
    raise KeyError("sanitizer catalogue: %s/%s" % (fam, fn))


def san_const_fn(d, s, name):
    """a `const fn` with the same meaning (for const_fn twins); None if not expressible."""
    ty, fn, p = d["ty"], s["fn"], s["p"]
    if d["fam"] == "int":
        if fn == "clamp":
            lo, hi = val_src(d, p[0]), val_src(d, p[1])
            return "const fn %s(v: %s) -> %s { if v < %s { %s } else if v > %s { %s } else { v } }" % (name, ty, ty, lo, lo, hi, hi)
        if fn == "dbl_sat":
            return "const fn %s(v: %s) -> %s { v.saturating_mul(2) }" % (name, ty, ty)
        if fn == "to_k":
            return "const fn %s(v: %s) -> %s { if v == %s { %s } else { v } }" % (name, ty, ty, val_src(d, p[0]), val_src(d, p[1]))
    if d["fam"] == "float":
        if fn == "clamp":
            lo, hi = val_src(d, p[0]), val_src(d, p[1])
            return "const fn %s(v: %s) -> %s { if v < %s { %s } else if v > %s { %s } else { v } }" % (name, ty, ty, lo, lo, hi, hi)
        if fn == "nan_to":
            return "const fn %s(v: %s) -> %s { if v != v { %s } else { v } }" % (name, ty, ty, val_src(d, p[0]))
    return None


def pred_closure(d, r):
    fam, fn, p = d["fam"], r["fn"], r["p"]
    if fam == "int":
        if fn == "even":
            return "|v| *v % 2 == 0"
        if fn == "ne":
            return "|v| *v != %s" % val_src(d, p[0])
    if fam == "float":
        if fn == "not_nan":
            return "|v| !v.is_nan()"
        if fn == "ne":
            return "|v| *v != %s" % val_src(d, p[0])
    if fam == "string":
        if fn == "has_a":
            return "|s| s.contains('a')"
        if fn == "ascii":
            return "|s| s.is_ascii()"
    if fam == "any" and d.get("ty") in ("Point", "Gen<Point>"):
        if fn == "sorted":
            return "|p| p.0 <= p.1"
    if fam == "any":
        if fn == "non_empty":
            return "|v| !v.is_empty()"
        if fn == "sorted":
            return "|v| v.windows(2).all(|w| w[0] <= w[1])"
        if fn == "short":
            return "|v| v.len() <= 2"
    raise KeyError("predicate catalogue: %s/%s" % (fam, fn))


def pred_const_fn(d, r, name):
    ty, fn, p = d["ty"], r["fn"], r["p"]
    if d["fam"] == "int":
        if fn == "even":
            return "const fn %s(v: &%s) -> bool { *v %% 2 == 0 }" % (name, ty)
        if fn == "ne":
            return "const fn %s(v: &%s) -> bool { *v != %s }" % (name, ty, val_src(d, p[0]))
    if d["fam"] == "float":
        if fn == "not_nan":
            return "const fn %s(v: &%s) -> bool { *v == *v }" % (name, ty)
        if fn == "ne":
            return "const fn %s(v: &%s) -> bool { *v != %s }" % (name, ty, val_src(d, p[0]))
    return None


REGEX_SRC = {"re_has_a": "a", "re_lower": "^[a-z]+$", "re_digits": "^[0-9]*$", "re_a_dot": "a."}


def custom_val_items(d, r):
    """(items, with-path, error-path) for `validate(with = .., error = ..)`."""
    fam, ty, fn = d["fam"], d["ty"], r["fn"]
    if fam == "int" and fn == "pos":
        cmp_zero = "*v == 0"
        neg = "" if INT_TYPES[ty][0] == 0 else ""
        items = (
            "#[derive(Debug, Clone, PartialEq, Eq)]\npub enum CErr { Zero, Negative }\n"
            "impl ::core::fmt::Display for CErr { fn fmt(&self, f: &mut ::core::fmt::Formatter<'_>) -> ::core::fmt::Result { write!(f, \"{:?}\", self) } }\n"
            "#[allow(unused_comparisons)]\n"
            "fn cval(v: &%s) -> Result<(), CErr> { if *v > 0 { Ok(()) } else if %s { Err(CErr::Zero) } else { Err(CErr::Negative) } }\n" % (ty, cmp_zero))
        return items, "cval", "CErr"
    if fam == "float" and fn == "pos":
        items = (
            "#[derive(Debug, Clone, PartialEq, Eq)]\npub enum CErr { NotANumber, NotPositive }\n"
            "impl ::core::fmt::Display for CErr { fn fmt(&self, f: &mut ::core::fmt::Formatter<'_>) -> ::core::fmt::Result { write!(f, \"{:?}\", self) } }\n"
            "fn cval(v: &%s) -> Result<(), CErr> { if v.is_nan() { Err(CErr::NotANumber) } else if *v > 0.0 { Ok(()) } else { Err(CErr::NotPositive) } }\n" % ty)
        return items, "cval", "CErr"
    if fam in ("string", "any") and fn == "short":
        arg = "&str" if fam == "string" else "&%s" % d["inner"]
        ln = "v.chars().count()" if fam == "string" else "v.len()"
        gen = d.get("gen_decl", "")
        items = (
            "#[derive(Debug, Clone, PartialEq, Eq)]\npub enum CErr { Empty, TooLong }\n"
            "impl ::core::fmt::Display for CErr { fn fmt(&self, f: &mut ::core::fmt::Formatter<'_>) -> ::core::fmt::Result { write!(f, \"{:?}\", self) } }\n"
            "fn cval%s(v: %s) -> Result<(), CErr> { let n = %s; if n == 0 { Err(CErr::Empty) } else if n > 3 { Err(CErr::TooLong) } else { Ok(()) } }\n" % (gen, arg, ln))
        return items, "cval", "CErr"
    raise KeyError("custom validation catalogue: %s/%s" % (fam, fn))


# ------------------------------------------------------------------ the declaration

def inner_type(d):
    if d["fam"] in ("int", "float"):
        return d["ty"]
    if d["fam"] == "string":
        return "String"
    return d["inner"]


def render_attrs(d):
    """returns (items before the declaration, attribute text)."""
    items, parts = [], []
    const = d.get("const_fn", False)
    nconst = [0]

    def cname():
        nconst[0] += 1
        return "B%d" % nconst[0]

    sans = []
    for i, s in enumerate(d["san"]):
        if s["k"] in ("trim", "lowercase", "uppercase"):
            sans.append(s["k"])
        else:
            if const:
                nm = "csan%d" % i
                src = san_const_fn(d, s, nm)
                assert src, "no const rendering for sanitizer"
                items.append(src)
                sans.append("with = %s" % nm)
            else:
                sans.append("with = %s" % san_closure(d, s))
    if sans:
        parts.append("sanitize(%s)" % ", ".join(sans))
    if d["vmode"] == "std":
        vals = []
        for i, r in enumerate(d["val"]):
            k = r["k"]
            if k in ("greater", "greater_or_equal", "less", "less_or_equal", "len_char_min", "len_char_max"):
                if r.get("sp", "lit") in ("shl", "and", "plus"):
                    a, n = r["p"]
                    nm = {"shl": "ONE", "and": "MASKED", "plus": "KP"}[r["sp"]] + str(i)
                    items.append("const %s: %s = %s;" % (nm, d["ty"], a))
                    vals.append("%s = %s" % (k, {"shl": "%s << %d" % (nm, n), "and": "%s & 0x%02x" % (nm, n), "plus": "%s + %d" % (nm, n)}[r["sp"]]))
                elif r.get("sp", "lit") == "expr":
                    nm = cname()
                    cty = "usize" if d["fam"] == "string" else d["ty"]
                    items.append("const %s: %s = %s;" % (nm, cty, val_src(d, r["b"], lit=False)))
                    vals.append("%s = %s" % (k, nm))
                else:
                    vals.append("%s = %s" % (k, val_src(d, r["b"])))
            elif k in ("finite", "not_empty"):
                vals.append(k)
            elif k == "predicate":
                if const:
                    nm = "cpred%d" % i
                    src = pred_const_fn(d, r, nm)
                    assert src, "no const rendering for predicate"
                    items.append(src)
                    vals.append("predicate = %s" % nm)
                else:
                    vals.append("predicate = %s" % pred_closure(d, r))
            elif k == "regex":
                if r.get("sp", "lit") == "expr":
                    items.append('static RE%d: ::std::sync::LazyLock<::regex::Regex> = ::std::sync::LazyLock::new(|| ::regex::Regex::new("%s").unwrap());' % (i, REGEX_SRC[r["fn"]]))
                    vals.append("regex = RE%d" % i)
                else:
                    vals.append('regex = "%s"' % REGEX_SRC[r["fn"]])
            else:
                raise KeyError(k)
        parts.append("validate(%s)" % ", ".join(vals))
    elif d["vmode"] == "custom":
        it, w, e = custom_val_items(d, d["val"][0])
        items.append(it)
        parts.append("validate(with = %s, error = %s)" % (w, e))
    traits = [t for t in d["traits"]]
    if traits:
        parts.append("derive(%s)" % ", ".join(traits))
    if d["dflt"]:
        if d.get("default_item"):
            # hygiene probe: the default is a user constant whose NAME the generated code also uses
            name, text = d["default_item"]
            items.append("#[allow(non_upper_case_globals)]\npub const %s: %s = %s;" % (name, "&'static str" if d["fam"] == "string" else inner_type(d), text))
            parts.append("default = %s" % name)
        else:
            parts.append("default = %s" % default_src(d))
    if const:
        parts.append("const_fn")
    if d.get("new_unchecked"):
        parts.append("new_unchecked")
    return items, ",\n    ".join(parts)


def default_src(d):
    v = d["dflt"][0]
    if d["fam"] in ("int", "float"):
        return val_src(d, v)
    if d["fam"] == "string":
        return rust_str(v) + ".to_string()" if False else rust_str(v)
    if d["fam"] == "any" and d.get("ty") in ("Point", "Gen<Point>"):
        return "Point(%d, %d)" % (v[0], v[1])
    if d["fam"] == "any" and d.get("ty") == "Cow<[i32]>":
        return "::std::borrow::Cow::Borrowed(&[%s])" % ", ".join(str(x) for x in v)
    if d["fam"] == "any":
        return "vec![%s]" % ", ".join(str(x) for x in v)
    raise KeyError(d["fam"])


def rust_str(cps):
    out = []
    for c in cps:
        if 32 <= c < 127 and chr(c) not in '"\\':
            out.append(chr(c))
        else:
            out.append("\\u{%x}" % c)
    return '"' + "".join(out) + '"'


def error_name(d):
    return "CErr" if d["vmode"] == "custom" else "NtError"


def variants(d):
    from .names import VARIANT
    return [VARIANT[r["k"]] for r in d["val"]]


POINT_ITEMS = """#[derive(Debug, Clone, Copy, PartialEq, Eq, PartialOrd, Ord, Hash, Default, serde::Serialize, serde::Deserialize)]
pub struct Point(pub i32, pub i32);
// Display hands the caller's formatter options (sign, zero padding, width, precision) to the SECOND component, like a numeric
// type would: a newtype that renders the inner value first and pads the text afterwards prints something else
impl ::core::fmt::Display for Point { fn fmt(&self, f: &mut ::core::fmt::Formatter<'_>) -> ::core::fmt::Result { write!(f, "{},", self.0)?; ::core::fmt::Display::fmt(&self.1, f) } }
impl ::core::str::FromStr for Point { type Err = String; fn from_str(s: &str) -> Result<Self, String> {
    let mut it = s.split(','); let a = it.next().ok_or("x")?.parse::<i32>().map_err(|e| e.to_string())?;
    let b = it.next().ok_or("y")?.parse::<i32>().map_err(|e| e.to_string())?; if it.next().is_some() { return Err("extra".into()); } Ok(Point(a, b)) } }
// an inherent, LENIENT `from_str` next to the strict trait impl: `FromStr` of a newtype around Point must go through the trait
impl Point { pub fn from_str(s: &str) -> Result<Self, String> { let t = s.trim().replace(';', ","); <Point as ::core::str::FromStr>::from_str(&t) } }
impl Enc for Point { fn enc(&self) -> Value { json!([self.0.to_string(), self.1.to_string()]) } }
impl Dec for Point { fn dec(v: &Value) -> Self { let a = v.as_array().unwrap(); Point(<i32 as Dec>::dec(&a[0]), <i32 as Dec>::dec(&a[1])) } }
"""


def render_decl_only(d):
    """items + the #[nutype] declaration itself (no driver)."""
    if d.get("decl_override"):
        return d["decl_override"]
    if d.get("ty") in ("Point", "Gen<Point>"):
        items, attrs = render_attrs(d)
        if d.get("ty") == "Gen<Point>":      # the bare type parameter as inner type, used at T = Point
            return POINT_ITEMS + "\n".join(items) + "\n#[nutype(\n    %s\n)]\npub struct Nt<T>(T);\n" % attrs
        return POINT_ITEMS + "\n".join(items) + "\n#[nutype(\n    %s\n)]\npub struct Nt(Point);\n" % attrs
    items, attrs = render_attrs(d)
    gen = d.get("gen_decl", "")
    src = "\n".join(items) + "\n"
    src += "#[nutype(\n    %s\n)]\npub struct Nt%s(%s);\n" % (attrs, gen, inner_type(d))
    return src

---------------------------- MODULE MC_HistoryStr ----------------------------
(* Histories over the string declarations and alphabet of MC_ValueStr.        *)
EXTENDS HistoryMachine, StrEnv, SequencesExt

RECURSIVE DropWs(_)
DropWs(s) == IF s # <<>> /\ Head(s) \in EnvWs THEN DropWs(Tail(s)) ELSE s
TrimS(s) == NReverse(DropWs(NReverse(DropWs(s))))
RECURSIVE MapCat(_, _)
MapCat(tbl, s) == IF s = <<>> THEN <<>> ELSE tbl[Head(s)] \o MapCat(tbl, Tail(s))
HPrim(n, x, env) == CASE n = "trim" -> TrimS(x) [] n = "lower" -> MapCat(EnvLower, x) [] n = "upper" -> MapCat(EnvUpper, x)

R(k, b, fn) == [k |-> k, b |-> b, fn |-> fn, p |-> <<>>, sp |-> "lit"]
San(k, fn) == [k |-> k, fn |-> fn, p |-> <<>>]
AtMostOne(S) == {{}} \cup {{x} : x \in S}
SanSets == {a \cup b \cup c : a \in AtMostOne({San("trim", "")}), b \in AtMostOne({San("lowercase", ""), San("uppercase", "")}),
                              c \in AtMostOne({San("with", "bang"), San("with", "take2")})}
ValSets == {{}, {R("not_empty", 0, "")}, {R("len_char_max", 2, "")}, {R("len_char_min", 1, ""), R("len_char_max", 3, "")},
            {R("predicate", 0, "has_a")}, {R("regex", 0, "re_lower"), R("not_empty", 0, "")}}
Decl(san, val) == [fam |-> "string", ty |-> "String", san |-> san, vmode |-> IF val = <<>> THEN "none" ELSE "std", val |-> val,
                   traits |-> <<"TryFrom", "FromStr", "Display", "Serialize", "Deserialize">>, dflt |-> <<>>]
MCHDecls == UNION {{Decl(s, v) : s \in Perms(S), v \in Perms(V)} : S \in SanSets, V \in ValSets}
Strings == UNION {[1..n -> Sigma] : n \in 0..2}
MCHInputs(d) == Strings
=============================================================================

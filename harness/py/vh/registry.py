"""Property id -> check function."""
import json

from . import props_value

CHECKS = {
    "C01": props_value.check_C01,
    "C03": props_value.check_C03,
    "C07": props_value.check_C07,
}


def replay(prop, path):
    """Re-run the check of a property; the replay record names the declaration and input
    (the checks are deterministic for a given VERIF_SEED, so the record is reproduced)."""
    with open(path) as f:
        rec = json.load(f)
    print("replaying %s: %s" % (prop, rec.get("summary", "")))
    print(rec.get("declaration", ""))
    return CHECKS[prop]()

----------------------------- MODULE NutypeArb -----------------------------
(***************************************************************************)
(* Generators: what `derive(Arbitrary)` generates (C09, C14).              *)
(*                                                                         *)
(* INTEGER (exact).  integer/gen/traits/arbitrary.rs derives a closed      *)
(* range from the validators (`greater = g` -> `g + 1`, spliced as tokens  *)
(* WITHOUT parentheses) and calls arbitrary's int_in_range                 *)
(* (arbitrary-1.3.2 unstructured.rs:293-372), then the constructor, whose  *)
(* rejection is turned into a panic by `.expect(..)`.                      *)
(*                                                                         *)
(* A bound rule carries its spelling: sp = "lit" | "expr" (a constant),    *)
(* "shl" (a << n), "and" (a & m), "plus" (a + n); p = <<a, n>> are the     *)
(* operands, b the value the expression denotes.                           *)
(*                                                                         *)
(* DECLARATIVE: for a declaration whose valid set is non-empty and every   *)
(* byte string: the result is an arbitrary::Error or a value satisfying    *)
(* every validator - never a panic (C09); the set of results over all byte *)
(* strings is exactly the set of values obtainable through the             *)
(* constructor (C14).                                                      *)
(***************************************************************************)
EXTENDS NutypeValue

-----------------------------------------------------------------------------
(* arbitrary::Unstructured::int_in_range on a type of W bytes               *)

RECURSIVE P256(_)
P256(n) == IF n = 0 THEN 1 ELSE 256 * P256(n - 1)

\* bytes consumed and the accumulated big-endian integer
RECURSIVE Accumulate(_, _, _, _, _)
Accumulate(W, delta, bytes, consumed, acc) ==
  IF consumed < W /\ (delta \div P256(consumed)) > 0 /\ consumed < Len(bytes)
  THEN Accumulate(W, delta, bytes, consumed + 1, IF W = 1 THEN bytes[consumed + 1] ELSE acc * 256 + bytes[consumed + 1])
  ELSE <<consumed, acc>>

\* result of u.int_in_range(lo..=hi) : [k |-> "ok", v, used] | [k |-> "panic"]
IntInRange(W, lo, hi, bytes) ==
  IF lo > hi THEN [k |-> "panic", v |-> 0, used |-> 0]                    \* assert!(start <= end)
  ELSE IF lo = hi THEN [k |-> "ok", v |-> lo, used |-> 0]
  ELSE LET delta == hi - lo
           ca == Accumulate(W, delta, bytes, 0, 0)
           off == IF delta = P256(W) - 1 THEN ca[2] ELSE ca[2] % (delta + 1)
       IN [k |-> "ok", v |-> lo + off, used |-> ca[1]]

-----------------------------------------------------------------------------
(* boundary derivation                                                     *)

RECURSIVE IPow2x(_)
IPow2x(n) == IF n <= 0 THEN 1 ELSE 2 * IPow2x(n - 1)
RECURSIVE IBitAnd(_, _)
IBitAnd(a, b) == IF a = 0 \/ b = 0 THEN 0 ELSE 2 * IBitAnd(a \div 2, b \div 2) + (IF a % 2 = 1 /\ b % 2 = 1 THEN 1 ELSE 0)

\* `(<bound tokens>) + 1` / `(<bound tokens>) - 1`: the bound expression is parenthesised before the
\* adjustment is spliced (fix 2f72c78; before it `a << n + 1` evaluated to `a << (n + 1)`)
Spliced(r, d) == r.b + d

\* the closed range handed to int_in_range (guard_to_boundary: later validators overwrite earlier ones)
RECURSIVE OpBoundary(_, _, _, _)
OpBoundary(d, i, lo, hi) ==
  IF i > Len(d.val) THEN <<lo, hi>>
  ELSE LET r == d.val[i] IN
       CASE r.k = "greater"          -> OpBoundary(d, i + 1, Spliced(r, 1), hi)
         [] r.k = "greater_or_equal" -> OpBoundary(d, i + 1, r.b, hi)
         [] r.k = "less"             -> OpBoundary(d, i + 1, lo, Spliced(r, -1))
         [] r.k = "less_or_equal"    -> OpBoundary(d, i + 1, lo, r.b)
         [] OTHER                    -> OpBoundary(d, i + 1, lo, hi)

\* OPERATIONAL: <T as Arbitrary>::arbitrary(u) for an integer newtype
OpArbInt(d, W, tmin, tmax, bytes) ==
  LET rng == IF d.vmode = "none" THEN <<tmin, tmax>> ELSE OpBoundary(d, 1, tmin, tmax)
      drawn == IntInRange(W, rng[1], rng[2], bytes)
  IN IF drawn.k = "panic" THEN PanicOut
     ELSE LET made == OpCtor(d, drawn.v, <<>>) IN
          IF IsOk(made) THEN made
          ELSE IF d.san # <<>> THEN ArbErrOut                  \* with a custom sanitizer: .map_err(|_| IncorrectFormat)? (fix)
          ELSE PanicOut                                        \* try_new(..).expect(..)

-----------------------------------------------------------------------------
(* DECLARATIVE                                                             *)

\* values obtainable through the constructor
Obtainable(d, Dom) == ValidSet(d, Dom, <<>>, CodeNanPolicy)

\* C09: the generator's outcome on one input
ArbOutcomeOK(d, out, Dom) ==
  \/ out.k = "aerr"
  \/ (out.k = "ok" /\ (d.vmode # "std" \/ Violated(d, OutVal(out), CodeNanPolicy) = {}))

\* C14: the generator's range is the obtainable set
ArbCovers(d, produced, Dom) == produced = Obtainable(d, Dom)

=============================================================================

SPECIFICATION ASpec
INVARIANTS
  NoBypass
  AttacksFail
  EmitAttacks
CHECK_DEADLOCK FALSE

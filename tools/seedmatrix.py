#!/usr/bin/env python3
"""Collect the results of tools/seedrun.sh runs (/tmp/seedrun_<name>.log) into seeded/<id>/meta.json
and print the detection matrix (markdown)."""
import glob
import json
import os
import re
import subprocess

HERE = os.path.dirname(os.path.dirname(os.path.abspath(__file__)))
head = subprocess.run(["git", "-C", "/repo", "rev-parse", "--short", "HEAD"], capture_output=True, text=True).stdout.strip()
rows = []
for d in sorted(glob.glob(os.path.join(HERE, "seeded", "C*_*"))):
    sid = os.path.basename(d)
    mp = os.path.join(d, "meta.json")
    meta = json.load(open(mp))
    res = meta.get("runs", {})
    for log in sorted([g for g in glob.glob("/tmp/seedrun_%s*.log" % sid.lower()) if re.match(r"^%s(\D.*)?\.log$" % sid.lower(), os.path.basename(g)[len("seedrun_"):])], key=os.path.getmtime):      # newer runs overwrite older ones
        txt = open(log).read()
        for m in re.finditer(r"^=== (C\d+) exit=(\d+)", txt, re.M):
            chk, rc = m.group(1), int(m.group(2))
            seg = txt[txt.index("=== %s\n" % chk):m.start()] if ("=== %s\n" % chk) in txt else ""
            res[chk] = {"exit": rc, "violations": len(re.findall(r"^VIOLATION", seg, re.M)), "repo_head": head}
    meta["runs"] = res
    meta["detected_by"] = sorted(c for c, r in res.items() if r["exit"] == 1)
    meta["missed_by"] = sorted(c for c, r in res.items() if r["exit"] == 0)
    json.dump(meta, open(mp, "w"), indent=1)
    if meta.get("obsolete"):
        rows.append((sid, meta["property"], ["(obsolete: " + meta["obsolete"][:80] + "...)"], [], meta.get("needs", "")[:110]))
        continue
    rows.append((sid, meta["property"], meta["detected_by"], meta["missed_by"], meta.get("needs", "")[:110]))
print("| seeded change | breaks | detected by | run but quiet | needs |")
print("|---|---|---|---|---|")
for sid, prop, det, miss, needs in rows:
    print("| %s | %s | %s | %s | %s |" % (sid, prop, ", ".join(det) or "-", ", ".join(miss) or "-", needs.replace("|", "/")))

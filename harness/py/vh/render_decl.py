"""Rendering of surface declarations (spec/NutypeDecl.tla records) to Rust source."""

PRELUDE = "#![allow(unused, non_snake_case, non_camel_case_types, dead_code, clippy::all)]\nuse nutype::nutype;\n"

BOUND_KINDS = ("greater", "greater_or_equal", "less", "less_or_equal")


def num_lit(fam, b, us=False, offset=0):
    """abstract bound position -> concrete literal (1,2,3 -> 5,6,7); with digit separators when `us`;
    every bound of a declaration that uses a separator is offset by 1000 so that the order is kept"""
    v = 4 + b + offset
    text = ("%d_%03d" % (v // 1000, v % 1000)) if us and v >= 1000 else str(v)
    return (text + ".0") if fam == "float" else text


def ident_closure(fam, ty):
    if fam == "string":
        return "|s: String| s"
    if fam == "any":
        return "|v| v"
    return "|v: %s| v" % ty


def pred_closure(fam):
    if fam == "string":
        return "|s| s.len() != 3"
    if fam == "any":
        return "|v| v.len() != 3"
    if fam == "float":
        return "|v| *v != 3.0"
    return "|v| *v != 3"


def cval_fn(fam, gen, arg):
    """the catalogue custom validator: rejects exactly the value rendered for `default = invalid` (0 / 0.0 / "" / [])."""
    if fam == "int":
        return "const fn cval%s(v: %s) -> Result<(), CErr> { if *v == 0 { Err(CErr::Bad) } else { Ok(()) } }" % (gen, arg)
    if fam == "float":
        return "const fn cval%s(v: %s) -> Result<(), CErr> { if *v == 0.0 { Err(CErr::Bad) } else { Ok(()) } }" % (gen, arg)
    return "fn cval%s(v: %s) -> Result<(), CErr> { if v.is_empty() { Err(CErr::Bad) } else { Ok(()) } }" % (gen, arg)


def custom_items(src):
    fam, ty = src["fam"], src["ty"]
    arg = "&str" if fam == "string" else "&%s" % ty
    gen = ""
    if src["tparams"]:
        gen = "<%s>" % ", ".join(src["tparams"])
    return ("#[derive(Debug, Clone, PartialEq, Eq)]\npub enum CErr { Bad }\n"
            "impl ::core::fmt::Display for CErr { fn fmt(&self, f: &mut ::core::fmt::Formatter<'_>) -> ::core::fmt::Result { write!(f, \"bad\") } }\n"
            "%s\n" % cval_fn(fam, gen, arg))


def render_val_item(src, it, items, consts):
    fam, w = src["fam"], it["w"]
    if w in BOUND_KINDS or w in ("len_char_min", "len_char_max") or w in ("Greater", "max"):
        if w in ("len_char_min", "len_char_max") or fam in ("string", "any"):
            lit, cty = str(it["b"]), "usize"
        else:
            off = 1000 if any(v.get("sp") == "lit_us" for b_ in src["blocks"] for v in b_["val"]) else 0
            lit, cty = num_lit(fam, it["b"], us=(it["sp"] == "lit_us"), offset=off), src["ty"]
        if fam == "any":
            cty = "usize"
        if it["sp"] == "expr":
            name = "K%d" % (len(consts) + 1)
            consts.append("const %s: %s = %s;" % (name, cty, lit))
            return "%s = %s" % (w, name)
        if it["sp"] == "cast":
            # a constant of another numeric type, cast to the inner type: the bound expression ends in `as T`
            name = "K%d" % (len(consts) + 1)
            wide = "f32" if fam == "float" else "i16"
            consts.append("const %s: %s = %s;" % (name, wide, lit))
            return "%s = %s as %s" % (w, name, cty)
        return "%s = %s" % (w, lit)
    if w in ("finite", "not_empty", "NotEmpty"):
        return w
    if w == "predicate":
        return "predicate = %s" % pred_closure(fam)
    if w == "regex":
        if it["sp"] == "expr":
            consts.append('static RE1: ::std::sync::LazyLock<::regex::Regex> = ::std::sync::LazyLock::new(|| ::regex::Regex::new("^[a-z]+$").unwrap());')
            return "regex = RE1"
        return 'regex = "%s"' % {"re_invalid": "(", "re_toobig": "^\\\\w{2000}$"}.get(it["fn"], "^[a-z]+$")
    if w == "with":
        if "CErr" not in "".join(items):
            items.append(custom_items(src))
        return "with = cval"
    if w == "error":
        if "CErr" not in "".join(items):
            items.append(custom_items(src))
        return "error = CErr"
    return w


def default_src(src, kind):
    fam = src["fam"]
    if kind == "block":
        # the same valid default, written with braces (an `if`/`else` expression)
        return "if true { %s } else { %s }" % (default_src(src, "valid"), default_src(src, "valid"))
    valid = kind == "valid"
    if fam == "int":
        return "6" if valid else "0"
    if fam == "float":
        return "6.0" if valid else "0.0"
    custom = any(v["w"] == "with" for b in src["blocks"] for v in b["val"])
    pred = any(v["w"] == "predicate" for b in src["blocks"] for v in b["val"])
    if fam == "string":
        # the catalogue predicate rejects length 3, the custom validator and not_empty reject the empty string
        return '"ab"' if valid else ('"xyz"' if pred and not custom else '""')
    return "vec![1]" if valid else ("vec![0, 0, 0]" if pred and not custom else "vec![]")


NOSTD_PRELUDE = "#![allow(unused, non_snake_case, non_camel_case_types, dead_code, clippy::all)]\nuse nutype::nutype;\nuse alloc::vec;\nuse alloc::vec::Vec;\nuse alloc::string::String;\n"


def render_src(src, nostd=False):
    """-> Rust source of one module file holding the declaration."""
    if nostd and "::std::" in src["ty"]:
        # the declaration's own inner type must be nameable without std (Cow lives in alloc)
        src = dict(src, ty=src["ty"].replace("::std::", "::alloc::"))
    items, consts, parts = [], [], []
    is_const = any(b["bk"] == "const_fn" for b in src["blocks"])
    for b in src["blocks"]:
        bk = b["bk"]
        if bk == "sanitize":
            sans = []
            for s in b["san"]:
                if s["w"] == "with" and is_const and src["fam"] in ("int", "float"):
                    # inside a `const fn` only a `const fn` path can be called, not a closure
                    if "const fn cid" not in "".join(items):
                        items.append("const fn cid(v: %s) -> %s { v }" % (src["ty"], src["ty"]))
                    sans.append("with = cid")
                elif s["w"] == "with":
                    sans.append("with = %s" % ident_closure(src["fam"], src["ty"]))
                else:
                    sans.append(s["w"])
            parts.append("sanitize(%s)" % ", ".join(sans))
        elif bk == "validate":
            parts.append("validate(%s)" % ", ".join(render_val_item(src, it, items, consts) for it in b["val"]))
        elif bk == "derive":
            parts.append("derive(%s)" % ", ".join(b["der"]))
        elif bk == "default":
            parts.append("default = %s" % default_src(src, b["dfl"]))
        elif bk == "const_fn":
            parts.append("const_fn")
        elif bk == "new_unchecked":
            parts.append("new_unchecked")
        else:
            parts.append("frobnicate")
    gen = "<%s>" % ", ".join(src["tparams"]) if src["tparams"] else ""
    name = src["name"]
    vis = (src["fieldvis"] + " ") if src["fieldvis"] else ""
    shape = src["shape"]
    if shape == "tuple":
        body = "pub struct %s%s(%s%s);" % (name, gen, vis, src["ty"])
    elif shape == "named":
        body = "pub struct %s { x: %s }" % (name, src["ty"])
    elif shape == "unit":
        body = "pub struct %s;" % name
    elif shape == "empty":
        body = "pub struct %s();" % name
    else:
        body = "pub enum %s { A }" % name
    outer = {"": "", "derive": "#[derive(Debug)]\n", "foreign": "#[repr(transparent)]\n", "doc": "/// documented\n",
             # the derive macro by its full path, and a multi-segment (tool) attribute: foreign attributes all the same
             "derive_path": "#[::core::prelude::v1::derive(Default)]\n", "tool": "#[rustfmt::skip]\n"}[src["outer"]]
    out = (NOSTD_PRELUDE if nostd else PRELUDE) + "\n".join(consts + items) + "\n"
    out += "#[nutype(\n    %s\n)]\n%s%s\n" % (",\n    ".join(parts), outer, body)
    return out


def decl_only(src):
    return "\n".join(l for l in render_src(src).splitlines()[2:])

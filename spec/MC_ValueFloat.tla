--------------------------- MODULE MC_ValueFloat ---------------------------
(***************************************************************************)
(* Bounded exhaustive exploration of the run-time layer for the float      *)
(* family over an abstract float line: -inf < -MAX < -5.5 < -tiny < +-0 <  *)
(* +tiny < 5.5 < MAX < +inf, and two NaNs (different payloads).  The       *)
(* harness instantiates every abstract point with the f32 and f64 bit      *)
(* pattern of that name and adds neighbouring bit patterns and random ones *)
(* when it replays the declarations into the real code.                    *)
(***************************************************************************)
EXTENDS ValueMachine, Json, SequencesExt

CONSTANTS Tier

F(c, r, u) == [c |-> c, r |-> r, u |-> u]
FNInf == F("inf", 0, "ninf")
FNMax == F("num", 1, "nmax")
N55  == F("num", 2, "n55")
NTiny == F("num", 3, "ntiny")
NZ   == F("num", 4, "nz")
PZ   == F("num", 4, "pz")
PTiny == F("num", 5, "ptiny")
P55  == F("num", 6, "p55")
FPMax == F("num", 7, "pmax")
FPInf == F("inf", 8, "pinf")
NaN1 == F("nan", 0, "nan1")
NaN2 == F("nan", 0, "nan2")

FDom == {FNInf, FNMax, N55, NTiny, NZ, PZ, PTiny, P55, FPMax, FPInf, NaN1, NaN2}

\* bounds that can be written as literals, and those that need an expression
LitBounds  == IF Tier \in {"quick", "c07", "c12"} THEN {N55, PZ, P55} ELSE {N55, NZ, PZ, P55}
ExprBounds == IF Tier \in {"c07", "c12"} THEN {FPInf, NaN1} ELSE IF Tier = "quick" THEN {FNInf, FPInf, NaN1} ELSE {FNInf, FNMax, FPMax, FPInf, NaN1}

Rule(k, b, sp) == [k |-> k, b |-> b, fn |-> "", p |-> <<>>, sp |-> sp]
Finite == [k |-> "finite", b |-> PZ, fn |-> "", p |-> <<>>, sp |-> "lit"]
PredNotNan == [k |-> "predicate", b |-> PZ, fn |-> "not_nan", p |-> <<>>, sp |-> "lit"]
PredNe == [k |-> "predicate", b |-> PZ, fn |-> "ne", p |-> <<P55>>, sp |-> "lit"]

Lowers == {Rule(k, b, "lit") : k \in {"greater", "greater_or_equal"}, b \in LitBounds}
          \cup {Rule(k, b, "expr") : k \in {"greater", "greater_or_equal"}, b \in ExprBounds}
Uppers == {Rule(k, b, "lit") : k \in {"less", "less_or_equal"}, b \in LitBounds}
          \cup {Rule(k, b, "expr") : k \in {"less", "less_or_equal"}, b \in ExprBounds}

\* literal pairs must describe a non-empty real interval (else the macro
\* rejects them); when they do not, both bounds are spelled as expressions
Consistent(l, u) ==
  IF l.k = "greater" \/ u.k = "less" THEN FLt(l.b, u.b) ELSE FLe(l.b, u.b)
AsExpr(r) == [r EXCEPT !.sp = "expr"]
Pair(l, u) == IF l.sp = "lit" /\ u.sp = "lit" /\ ~Consistent(l, u) THEN {AsExpr(l), AsExpr(u)} ELSE {l, u}

Pairs == {Pair(l, u) : l \in Lowers, u \in Uppers}
Singles == {{r} : r \in Lowers \cup Uppers}

San(fn, p) == [k |-> "with", fn |-> fn, p |-> p]
AllSans == {<<>>, <<San("clamp", <<N55, P55>>)>>, <<San("nan_to", <<PZ>>)>>}
FewSans == {<<>>, <<San("nan_to", <<PZ>>)>>}

Defaults == IF Tier = "c12" THEN {<<P55>>, <<NaN1>>} ELSE IF Tier \in {"quick", "c07"} THEN {<<P55>>} ELSE {<<P55>>, <<NaN1>>, <<FPInf>>}

StdTraits == <<"Debug", "Clone", "Copy", "PartialEq", "PartialOrd",
               "AsRef", "Deref", "Borrow", "Into", "Display", "FromStr", "Default",
               "Serialize", "Deserialize">>

HasFinite(val) == \E i \in DOMAIN val : val[i].k = "finite"
\* Eq and Ord may only be derived together with `finite` (float/validate.rs); the C12 slice derives them
OrdTraits(vmode, val) == IF Tier = "c12" /\ vmode = "std" /\ HasFinite(val) THEN <<"Eq", "Ord">> ELSE <<>>
DeclC(conv, ty, san, vmode, val, dflt) ==
  [fam |-> "float", ty |-> ty, san |-> san, vmode |-> vmode, val |-> val,
   traits |-> StdTraits \o OrdTraits(vmode, val) \o (IF vmode = "none" /\ conv = "From" THEN <<"From">> ELSE <<"TryFrom">>),
   dflt |-> dflt]
Decl(ty, san, vmode, val, dflt) == DeclC("From", ty, san, vmode, val, dflt)


CustomVals == {<<[k |-> "custom", b |-> PZ, fn |-> "pos", p |-> <<PZ>>, sp |-> "lit"]>>}

WithFinite(SS) == SS \cup {S \cup {Finite} : S \in SS}

Guards ==
  IF Tier = "c12"     \* C12 slice: finite (+ optional bounds) with Eq/Ord; a few guards without finite for contrast
  THEN {<<S \cup {Finite}, FewSans>> : S \in Pairs \cup Singles \cup {{}}}
       \cup {<<S, {<<>>}>> : S \in Singles \cup {{PredNotNan}}}
  ELSE IF Tier = "c07"     \* C07 slice: every order of lower + upper + finite + predicate
  THEN {<<S \cup {Finite, PredNe}, {<<>>}>> : S \in Pairs} \cup {<<S \cup {Finite}, {<<>>}>> : S \in Pairs}
       \* and a predicate that NaN FAILS, in every position relative to `finite` (which rule is the first violated one for NaN?)
       \cup {<<S \cup {Finite, PredNotNan}, {<<>>}>> : S \in Singles \cup {{}}}
  ELSE IF Tier = "quick"
  THEN {<<S, FewSans>> : S \in WithFinite(Pairs)}
       \cup {<<S, AllSans>> : S \in WithFinite(Singles) \cup {{Finite}, {PredNotNan}, {Finite, PredNe}}}
  ELSE {<<S, AllSans>> : S \in WithFinite(Pairs) \cup WithFinite(Singles)
                              \cup {{Finite}, {PredNotNan}, {PredNe}, {Finite, PredNe}, {Finite, PredNotNan}}
                              \cup {S \cup {PredNe} : S \in Singles}}

DeclSpace ==
  UNION {{Decl("f", san, "std", val, dflt) : san \in g[2], val \in Perms(g[1]), dflt \in Defaults} : g \in Guards}
  \cup {Decl("f", san, "none", <<>>, dflt) : san \in AllSans, dflt \in Defaults}
  \cup {DeclC("TryFrom", "f", san, "none", <<>>, dflt) : san \in AllSans, dflt \in Defaults}
  \cup {Decl("f", san, "custom", val, dflt) : san \in AllSans, val \in CustomVals, dflt \in Defaults}

MCDeclSeq == SetToSeq(DeclSpace)

MCInputsOf(d, e) ==
  IF e = "default" THEN {In(PZ)}
  ELSE {In(x) : x \in FDom} \cup (IF e \in {"parse", "deser"} THEN {InFail} ELSE {})

MCEpsOf(d) ==
  {CtorName(d), "default", "parse", "deser"} \cup (IF NInSeq("From", d.traits) THEN {"from"} ELSE {"try_from"})

MCPrim(n, x, env) == x

EmitDecl == (pc = "idle") => PrintT(<<"DECL", di, ToJson(D)>>)

\* C12 on the model: with `finite` among the validators no NaN or infinity is ever wrapped
FiniteExcludesNonFinite ==
  (Done /\ IsOk(out) /\ D.vmode = "std" /\ \E i \in DOMAIN D.val : D.val[i].k = "finite")
     => IsFiniteF(OutVal(out))

=============================================================================

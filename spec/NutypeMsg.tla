----------------------------- MODULE NutypeMsg -----------------------------
(***************************************************************************)
(* C16: the Display text of a bound-violation error states the violated    *)
(* rule truthfully.                                                        *)
(*                                                                         *)
(* DECLARATIVE: a message states a relation R between a valid value (or    *)
(* its length) and the bound.  Read literally, R must be satisfied by      *)
(* exactly the values the validator accepts: for the three cells `below`,  *)
(* `at`, `above` the bound, Holds(R, cell) <=> Accepts(kind, cell).        *)
(*                                                                         *)
(* OPERATIONAL: the phrase each family's generated Display arm uses        *)
(* (integer|float|string/gen/error.rs), as a relation.                     *)
(*                                                                         *)
(* TLC compares the two over every family x kind x cell.  The pairs where  *)
(* the transcribed table is NOT truthful are the design-level candidates   *)
(* (KnownUntruthful); each is confirmed or refuted on the real code by     *)
(* trace validation (Trace_Msg.tla), which judges only the declarative     *)
(* statement.                                                              *)
(***************************************************************************)
EXTENDS Integers, Sequences, FiniteSets, TLC

Cells == {"below", "at", "above"}
Rels == {">", ">=", "<", "<="}

BoundKindsOf(fam) ==
  IF fam = "string" THEN {"len_char_min", "len_char_max"}
  ELSE {"greater", "greater_or_equal", "less", "less_or_equal"}

\* which cells the validator accepts (NutypeValue.Sat on a non-NaN value)
Accepts(kind, cell) ==
  CASE kind = "greater"          -> cell = "above"
    [] kind = "greater_or_equal" -> cell \in {"at", "above"}
    [] kind = "less"             -> cell = "below"
    [] kind = "less_or_equal"    -> cell \in {"below", "at"}
    [] kind = "len_char_min"     -> cell \in {"at", "above"}
    [] kind = "len_char_max"     -> cell \in {"below", "at"}

\* the literal meaning of a stated relation
Holds(rel, cell) ==
  CASE rel = ">"  -> cell = "above"
    [] rel = ">=" -> cell \in {"at", "above"}
    [] rel = "<"  -> cell = "below"
    [] rel = "<=" -> cell \in {"below", "at"}

Truthful(rel, kind) == \A c \in Cells : Holds(rel, c) <=> Accepts(kind, c)

\* transcription of the Display arms
OpPhrase(fam, kind) ==
  CASE fam = "int" /\ kind = "greater"            -> ">"    \* "must be greater than {b}"
    [] fam = "int" /\ kind = "greater_or_equal"   -> ">="   \* "must be greater or equal to {b}"
    [] fam = "int" /\ kind = "less"               -> "<"    \* "must be less than {b}"
    [] fam = "int" /\ kind = "less_or_equal"      -> "<="   \* "must be less or equal to {b}"
    [] fam = "float" /\ kind = "greater"          -> ">"
    [] fam = "float" /\ kind = "greater_or_equal" -> ">="
    [] fam = "float" /\ kind = "less_or_equal"    -> "<"    \* float/gen/error.rs: LessOrEqualViolated => "must be less than"
    [] fam = "float" /\ kind = "less"             -> "<"    \* "must be less than" (fix 832b759)
    [] fam = "string" /\ kind = "len_char_max"    -> "<="   \* "length must be at most {n} character(s)"  (fix 832b759)
    [] fam = "string" /\ kind = "len_char_min"    -> ">="   \* "length must be at least {n} character(s)" (fix 832b759)

\* candidates produced by this model on the current transcription (DESIGN.md section 7, item 7)
\* (float less_or_equal is pinned by test_suite float::traits::test_trait_from_str_with_validation: known finding)
KnownUntruthful == {<<"float", "less_or_equal">>}

=============================================================================

"""C02: every written rule is enforced as written, or the declaration is rejected.
Bound spellings (NutypeBound / MC_Bound) and attribute layouts (slice R of MC_Decl), judged behaviourally
against the DENOTED declaration by Trace_Value."""
import json
import random

from .common import ToolError, Verdict, Timer, seed, tier
from . import value_layer as VL
from . import checks_value as CV
from .tlc import run_tlc, json_rows
from .render_decl import render_src
from .values import INT_TYPES, f_bits
from . import render_value

REAL_LIMITS = {"i8": (-128, 127), "i32": (-2**31, 2**31 - 1)}


def atom_src(sp, a, cname):
    ty, k, v = sp["ty"], a["k"], a["v"]
    flt = ty == "f64"
    if k == "lit":
        return str(v)
    if k == "fltlit":
        return "1e1" if sp["name"] == "exp_float" else "%d.0" % v
    if k == "hexlit":
        return "0x%02x" % v
    if k == "suflit":
        return "%d%s" % (v, ty)
    if k == "const":
        if sp["name"] == "const_named_max":
            return "MAX"
        if sp["name"] == "const_named_min":
            return "MIN"
        if sp["name"] in ("path_max", "neg_path_max"):
            return "limits::MAX"
        if sp["name"] == "tmin":
            return "%s::MIN" % ty
        if sp["name"] == "tmax":
            return "%s::MAX" % ty
        return cname
    if k == "paren":
        return "(%s)" % (("%d.0" % v) if flt else str(v))
    if k == "parenc":
        return "(%s)" % cname
    if k == "call":
        return "five()"
    raise KeyError(k)


def spelling_src(sp):
    """-> (items, bound text)"""
    ty = sp["ty"]
    flt = ty == "f64"
    items = []

    def lit(v):
        return ("%d.0" % v) if flt else str(v)
    text = "-" if sp["neg"] else ""
    if sp["name"] == "const_named_max":
        items.append("const MAX: %s = %s;" % (ty, lit(sp["a1"]["v"])))
    elif sp["name"] == "const_named_min":
        items.append("const MIN: %s = %s;" % (ty, lit(sp["a1"]["v"])))
    elif sp["name"] in ("path_max", "neg_path_max"):
        items.append("pub mod limits { pub const MAX: %s = %s; }" % (ty, lit(sp["a1"]["v"])))
    elif sp["a1"]["k"] in ("const", "parenc") and sp["name"] not in ("tmin", "tmax"):
        items.append("const K: %s = %s;" % (ty, lit(sp["a1"]["v"])))
    if sp["a1"]["k"] == "call":
        items.append("const fn five() -> %s { %s }" % (ty, lit(sp["a1"]["v"])))
    text += atom_src(sp, sp["a1"], "K")
    if sp["op"]:
        if sp["a2"]["k"] == "const":
            items.append("const M2: %s = %s;" % (ty, lit(sp["a2"]["v"])))
        text += " %s %s" % (sp["op"], atom_src(sp, sp["a2"], "M2"))
    return items, text


def spelling_decls(spells):
    decls = []
    for i, row in enumerate(spells):
        sp, denote, op = row["sp"], row["denote"], row["op"]
        ty = sp["ty"]
        if sp["name"] in ("tmin", "tmax") and ty in REAL_LIMITS:
            denote = REAL_LIMITS[ty][0 if sp["name"] == "tmin" else 1]
            op = dict(op, v=denote)
        fam = "float" if ty == "f64" else "int"
        for kind in ("greater_or_equal", "less", "greater", "less_or_equal"):
            items, text = spelling_src(sp)
            did = "sp%03d_%s" % (i, {"greater_or_equal": "ge", "less": "lt", "greater": "gt", "less_or_equal": "le"}[kind])
            src = "\n".join(items) + "\n#[nutype(\n    validate(%s = %s),\n    derive(Debug, Clone, Copy, PartialEq)\n)]\npub struct Nt(%s);\n" % (kind, text, ty)
            b = f_bits("f64", float(denote)) if fam == "float" else denote
            marks = {denote, op["v"], 0, -denote}
            if fam == "float":
                cells = sorted({f_bits("f64", float(m + k)) for m in marks for k in (-1, 0, 1)} | {f_bits("f64", m + 0.5) for m in marks})
            else:
                lo, hi = INT_TYPES[ty]
                cells = sorted({m + k for m in marks for k in (-2, -1, 0, 1, 2) if lo <= m + k <= hi} | {lo, hi})
            decls.append({"id": did, "fam": fam, "ty": ty, "src_ty": ty, "san": [], "vmode": "std",
                          "val": [{"k": kind, "b": b, "fn": "", "p": [], "sp": "lit"}],
                          "traits": ["Debug", "Clone", "Copy", "PartialEq"], "dflt": [],
                          "decl_override": src, "cells": cells, "minimal_driver": True, "spelling": sp["name"], "spelling_text": text,
                          "model_accepts": op["st"] != "reject", "tag": "spelling:" + sp["name"]})
    return decls


def round_decimal(ty, text):
    """bits of the float of type ty that the decimal literal `text` denotes (round to nearest, ties to even), exact."""
    from fractions import Fraction
    from .values import f_from_bits
    x = Fraction(text)
    c = f_bits(ty, float(text))            # via f64: at most one ulp off for f32
    best = None
    for cand in (c - 1, c, c + 1):
        if cand < 0:
            continue
        v = f_from_bits(ty, cand)
        if v != v or v in (float("inf"), float("-inf")):
            continue
        dist = abs(Fraction(v) - x)
        key = (dist, cand & 1)
        if best is None or key < best[0]:
            best = (key, cand)
    return best[1]


def float_literal_decls():
    """C02: long decimal literals as float bounds, at, just below and just above the midpoint between two adjacent
    values of the type: the bound enforced must be the value the literal denotes in THAT type (a literal that is
    parsed in a wider type and narrowed afterwards rounds twice)."""
    from .props_obs import midpoint_texts
    decls = []
    n = 0
    for ty in ("f32", "f64"):
        for x in (1.0, 16777216.0, 0.1, 1e10, 3.0):
            base = f_bits(ty, x)
            extra = ["1e3", "2.5e-3", "1.5E2", "12e-1"] if x == 1.0 else []       # exponent notation: a literal with a letter in it
            for text in midpoint_texts(ty, base) + midpoint_texts(ty, base - 1) + extra:
                if text.startswith("-") or len(text) > 60:
                    continue
                b = round_decimal(ty, text)
                for kind in ("less_or_equal", "greater"):
                    n += 1
                    src = "\n#[nutype(\n    validate(%s = %s),\n    derive(Debug, Clone, Copy, PartialEq)\n)]\npub struct Nt(%s);\n" % (kind, text, ty)
                    decls.append({"id": "fl%03d" % n, "fam": "float", "ty": ty, "src_ty": ty, "san": [], "vmode": "std",
                                  "val": [{"k": kind, "b": b, "fn": "", "p": [], "sp": "lit"}],
                                  "traits": ["Debug", "Clone", "Copy", "PartialEq"], "dflt": [],
                                  "decl_override": src, "cells": [b - 2, b - 1, b, b + 1, b + 2], "minimal_driver": True,
                                  "spelling": "float_literal", "spelling_text": text, "model_accepts": True, "tag": "float_literal:" + ty})
    return decls


def layout_decls(rows):
    """slice R of MC_Decl (repeated blocks, block orders) -> value-layer declarations of the DENOTED guard."""
    decls = []
    for k, obj in sorted(rows.items()):
        src = obj["src"]
        kinds = [b["bk"] for b in src["blocks"]]
        if not (len(set(kinds)) != len(kinds) or (src["fam"] == "string" and len(kinds) == 3)):
            continue
        if src["name"] != "Nt" or src["tparams"]:
            continue
        if any(t not in ("Debug", "Clone", "Default") for b in src["blocks"] for t in b["der"]):
            continue
        fam = src["fam"]
        san, val, der = [], [], []
        for b in src["blocks"]:
            for s in b["san"]:
                san.append({"k": s["w"], "fn": "", "p": []})
            for v in b["val"]:
                bb = v["b"]
                if v["w"] in ("greater", "greater_or_equal", "less", "less_or_equal"):
                    bb = 4 + v["b"] if fam == "int" else f_bits("f64", float(4 + v["b"]))
                elif fam == "float":
                    bb = 0
                val.append({"k": v["w"], "b": bb, "fn": "", "p": [], "sp": "lit"})
            der += b["der"]
        if any(v["k"] not in ("greater", "greater_or_equal", "less", "less_or_equal", "finite", "not_empty", "len_char_max", "len_char_min") for v in val):
            continue
        if "Default" in der:
            der = [t for t in der if t != "Default"]
        ty = src["ty"]
        d = {"id": "ly_" + k, "fam": fam, "ty": ty, "src_ty": ty, "san": san, "vmode": "std" if val else "none", "val": val,
             "traits": [], "dflt": [], "minimal_driver": True, "probe_traits": sorted(set(t for t in der if t in ("Debug", "Clone"))), "decl_override": "\n".join(render_src(src).splitlines()[2:]) + "\n",
             "spelling": "layout", "tag": "repeated_block" if len(set(kinds)) != len(kinds) else "block_order",
             "model_accepts": obj["op"] == ""}
        if fam == "int":
            d["cells"] = list(range(0, 12)) + [-1, 100]
        elif fam == "float":
            d["cells"] = sorted({f_bits("f64", float(x)) for x in range(0, 12)} | {0x7ff0000000000000, 0x7ff8000000000000, 0xfff0000000000000})
        else:
            d["cells"] = [(), (97,), (32,), (32, 97, 32), (65, 66), (97, 98, 99), (32, 65, 32, 32), (223,), (97, 97, 97, 97)]
        decls.append(d)
    return decls


def closure_form_decls():
    """C02: closures vs paths for `with` / `predicate` (typed, untyped, `mut`): every form denotes the same catalogue
    function and must be enforced like it."""
    decls = []
    forms_int_san = [("untyped", "|v| v.clamp(-5, 10)", ""), ("typed", "|v: i32| v.clamp(-5, 10)", ""),
                     ("mut", "|mut v| { v = v.clamp(-5, 10); v }", ""), ("mut_typed", "|mut v: i32| { v = v.clamp(-5, 10); v }", ""),
                     ("path", "clamp_fn", "fn clamp_fn(v: i32) -> i32 { v.clamp(-5, 10) }"),
                     ("qualified_path", "helpers::clamp_fn", "mod helpers { pub fn clamp_fn(v: i32) -> i32 { v.clamp(-5, 10) } }")]
    forms_int_pred = [("untyped", "|v| *v % 2 == 0", ""), ("typed", "|v: &i32| *v % 2 == 0", ""),
                      ("path", "is_even", "fn is_even(v: &i32) -> bool { *v % 2 == 0 }")]
    n = 0
    for (sn, ssrc, sitem) in forms_int_san:
        for (pn, psrc, pitem) in forms_int_pred:
            n += 1
            src = "%s\n%s\n#[nutype(\n    sanitize(with = %s),\n    validate(predicate = %s, less_or_equal = 8),\n    derive(Debug, Clone, Copy, PartialEq)\n)]\npub struct Nt(i32);\n" % (sitem, pitem, ssrc, psrc)
            decls.append({"id": "cf%03d" % n, "fam": "int", "ty": "i32", "src_ty": "i32",
                          "san": [{"k": "with", "fn": "clamp", "p": [-5, 10]}], "vmode": "std",
                          "val": [{"k": "predicate", "b": 0, "fn": "even", "p": [], "sp": "lit"}, {"k": "less_or_equal", "b": 8, "fn": "", "p": [], "sp": "lit"}],
                          "traits": ["Debug", "Clone", "Copy", "PartialEq"], "dflt": [], "decl_override": src, "minimal_driver": True,
                          "cells": list(range(-8, 14)) + [100, -100], "spelling_text": "%s / %s" % (ssrc, psrc),
                          "model_accepts": True, "tag": "closure_form:%s+%s" % (sn, pn)})
    forms_str_san = [("untyped", "|s| s.chars().rev().collect()", ""), ("typed", "|s: String| s.chars().rev().collect()", ""),
                     ("mut", "|mut s| { s = s.chars().rev().collect(); s }", ""), ("path", "rev_fn", "fn rev_fn(s: String) -> String { s.chars().rev().collect() }")]
    forms_str_pred = [("untyped", "|s| s.contains('a')", ""), ("typed", "|s: &str| s.contains('a')", ""),
                      ("path", "has_a", "fn has_a(s: &str) -> bool { s.contains('a') }")]
    for (sn, ssrc, sitem) in forms_str_san:
        for (pn, psrc, pitem) in forms_str_pred:
            n += 1
            src = "%s\n%s\n#[nutype(\n    sanitize(trim, with = %s),\n    validate(predicate = %s),\n    derive(Debug, Clone, PartialEq)\n)]\npub struct Nt(String);\n" % (sitem, pitem, ssrc, psrc)
            decls.append({"id": "cf%03d" % n, "fam": "string", "ty": "String",
                          "san": [{"k": "trim", "fn": "", "p": []}, {"k": "with", "fn": "rev", "p": []}], "vmode": "std",
                          "val": [{"k": "predicate", "b": 0, "fn": "has_a", "p": [], "sp": "lit"}],
                          "traits": ["Debug", "Clone", "PartialEq"], "dflt": [], "decl_override": src, "minimal_driver": True,
                          "cells": [(), (97,), (98, 97), (32, 97, 98, 32), (65,), (98, 32), (32, 32), (97, 32, 98)], "spelling_text": "%s / %s" % (ssrc, psrc),
                          "model_accepts": True, "tag": "closure_form:%s+%s" % (sn, pn)})
    return decls


def combo_decls():
    """C02: every combination of validator kinds of a family (lower x upper x finite/not_empty x predicate, two
    orders): no written rule may be dropped because of the company it keeps."""
    import itertools
    decls = []
    n = 0

    def rule(k, b=0, fn=""):
        return {"k": k, "b": b, "fn": fn, "p": [], "sp": "lit"}
    for ty in ("i16", "f64", "f32"):
        fam = "int" if ty == "i16" else "float"
        enc = (lambda x: x) if fam == "int" else (lambda x, ty=ty: f_bits(ty, float(x)))
        if fam == "float":
            # written as LITERALS (3.0, 9.0), not as from_bits expressions
            for x in (3, 9):
                render_value.FLOAT_LITS[(ty, f_bits(ty, float(x)))] = "%d.0" % x
        for lo, up, fin, pr in itertools.product((None, "greater", "greater_or_equal"), (None, "less", "less_or_equal"), (0, 1), (0, 1)):
            if fam == "int" and fin:
                continue
            val = []
            if lo:
                val.append(rule(lo, enc(3)))
            if up:
                val.append(rule(up, enc(9)))
            if fin:
                val.append(rule("finite"))
            if pr:
                val.append(rule("predicate", 0, "even" if fam == "int" else "not_nan"))
            if len(val) < 2:
                continue
            for order in (val, val[::-1]):
                n += 1
                d = {"id": "cb%03d" % n, "fam": fam, "ty": ty, "src_ty": ty, "san": [], "vmode": "std", "val": list(order),
                     "traits": ["Debug", "Clone", "PartialEq"], "dflt": [], "minimal_driver": True, "model_accepts": True,
                     "spelling_text": "+".join(r["k"] for r in order), "tag": "combination:" + fam}
                if fam == "int":
                    d["cells"] = list(range(0, 13)) + [-1, 100, -32768, 32767]
                else:
                    W = 32 if ty == "f32" else 64
                    nan = 0x7fc00000 if ty == "f32" else 0x7ff8000000000000
                    inf = 0x7f800000 if ty == "f32" else 0x7ff0000000000000
                    sign = 1 << (W - 1)
                    d["cells"] = sorted({f_bits(ty, float(x)) for x in range(0, 13)} | {f_bits(ty, 2.5), f_bits(ty, 9.5), nan, nan | sign, nan | 1, inf, inf | sign, sign})
                decls.append(d)
    for ne, mn, mx, pr in itertools.product((0, 1), (0, 1), (0, 1), (0, 1)):
        val = []
        if ne:
            val.append(rule("not_empty"))
        if mn:
            val.append(rule("len_char_min", 2))
        if mx:
            val.append(rule("len_char_max", 3))
        if pr:
            val.append(rule("predicate", 0, "has_a"))
        if len(val) < 2:
            continue
        for order in (val, val[::-1]):
            n += 1
            decls.append({"id": "cb%03d" % n, "fam": "string", "ty": "String", "san": [], "vmode": "std", "val": list(order),
                          "traits": ["Debug", "Clone", "PartialEq"], "dflt": [], "minimal_driver": True, "model_accepts": True,
                          "spelling_text": "+".join(r["k"] for r in order), "tag": "combination:string",
                          "cells": [(), (97,), (98,), (97, 98), (98, 98), (97, 98, 99), (98, 98, 98), (97, 98, 99, 100), (98, 98, 98, 98), (223, 97), (128512, 97, 98, 99)]})
    return decls


def sanitizer_order_decls():
    """C02: string sanitizers in every order of (trim, a case mapping, a custom function that is sensitive to both): the
    written order is the order of application - nothing is fused, hoisted or dropped."""
    import itertools
    decls = []
    n = 0

    def san(k, fn=""):
        return {"k": k, "fn": fn, "p": []}
    for case in ("lowercase", "uppercase"):
        for size in (2, 3):
            for perm in itertools.permutations([san("trim"), san(case), san("with", "tag_a")], size):
                n += 1
                decls.append({"id": "so%03d" % n, "fam": "string", "ty": "String", "san": list(perm), "vmode": "std",
                              "val": [{"k": "not_empty", "b": 0, "fn": "", "p": [], "sp": "lit"}],
                              "traits": ["Debug", "Clone", "PartialEq"], "dflt": [], "minimal_driver": True, "model_accepts": True,
                              "spelling_text": ", ".join(x["k"] + (":" + x["fn"] if x["fn"] else "") for x in perm), "tag": "sanitizer_order",
                              "cells": [(), (97,), (32, 97, 32), (65, 98, 32), (32, 65), (223,), (304, 32), (32, 32), (97, 32, 66), (0x1C5, 32), (8195, 97)]})
    return decls


def wide_integer_decls():
    """C02: bounds at zero and at small values on the wide and pointer-sized integer types, each kind alone and in pairs."""
    decls = []
    n = 0

    def rule(k, b):
        return {"k": k, "b": b, "fn": "", "p": [], "sp": "lit"}
    for ty in ("isize", "usize", "i128", "u128", "i64", "u64"):
        lo, hi = INT_TYPES[ty]
        for lower in (None, ("greater_or_equal", 0), ("greater", 0), ("greater_or_equal", 3)):
            for upper in (None, ("less_or_equal", 9), ("less", 9)):
                val = ([rule(*lower)] if lower else []) + ([rule(*upper)] if upper else [])
                if not val:
                    continue
                n += 1
                cells = sorted({x for x in (-10, -2, -1, 0, 1, 2, 3, 4, 8, 9, 10, 100, lo, lo + 1, hi - 1, hi) if lo <= x <= hi})
                decls.append({"id": "wi%03d" % n, "fam": "int", "ty": ty, "src_ty": ty, "san": [], "vmode": "std", "val": val,
                              "traits": ["Debug", "Clone", "PartialEq"], "dflt": [], "minimal_driver": True, "model_accepts": True,
                              "spelling_text": "+".join("%s=%d" % (r["k"], r["b"]) for r in val), "tag": "wide_integer:" + ty, "cells": cells})
    return decls


def mixed_validation_rows(rows):
    """slice V of MC_Decl: validate(..) blocks that mix `with`/`error` with built-in validators. Such a block cannot be honoured
    (one error type, two rule sets): C02 demands rejection. -> {id: surface src}"""
    out = {}
    for k, obj in sorted(rows.items()):
        src = obj["src"]
        if src["name"] != "Nt" or src["tparams"] or len(src["blocks"]) != 1 or src["blocks"][0]["bk"] != "validate":
            continue
        ws = [v["w"] for v in src["blocks"][0]["val"]]
        std = [w for w in ws if w not in ("with", "error")]
        if std and ("with" in ws or "error" in ws):
            out["mx_" + k] = src
    return out


def check_C02():
    t = Timer()
    rng = random.Random(seed())
    verdict = Verdict("C02")
    rb = run_tlc("MC_Bound", "MC_Bound.cfg", "mc_bound", workers=4)
    spells = [obj for (_i, obj) in sorted(json_rows(rb, "SPELL"), key=lambda x: x[0])]
    if not spells:
        raise ToolError("MC_Bound emitted no spellings")
    from .props_decl import mc_decl_rows
    rd, rows = mc_decl_rows()
    decls = (spelling_decls(spells) + layout_decls(rows) + closure_form_decls() + combo_decls() + float_literal_decls()
             + sanitizer_order_decls() + wide_integer_decls())

    def rows_of(d):
        ep = "try_new" if d["vmode"] != "none" else "new"
        return [{"d": d["id"], "ep": ep, "ins": [VL.enc_value(d, v) for v in d["cells"]]}]
    obs, rejected, alive = CV.build_and_run("c02", decls, rows_of, ["serde"], ["serde"], nshards=4)
    # mixed validate blocks: accepted = a written rule is dropped
    from .props_decl import build_verdicts
    mixed = mixed_validation_rows(rows)
    mv = build_verdicts("c02_mixed", {k: {"src": dict(src, feats=["serde"])} for k, src in mixed.items()}, nshards=1) if mixed else {}
    for k, (vd, _msgs) in sorted(mv.items()):
        if vd == "accepted":
            from .render_decl import decl_only
            verdict.violation({"property": "C02", "decl": k, "family": mixed[k]["fam"], "ty": mixed[k]["ty"], "tag": "mixed_validation", "kind": "accepted",
                               "declaration": decl_only(mixed[k]),
                               "summary": "[mixed_validation] %s is accepted although it mixes with/error with built-in validators: one of the written rules cannot be enforced :: %s" % (
                                   k, decl_only(mixed[k]).strip().replace("\n", " ")[-160:])})
    alive_decls = [d for d in decls if d["id"] in set(alive)]
    by_id0 = {d["id"]: d for d in decls}
    probe_failed = set()
    for k, msgs in list(rejected.items()):
        if msgs and all("Probe" in m for m in msgs):
            d = by_id0[k]
            rejected.pop(k)
            probe_failed.add(k)
            verdict.violation({"property": "C02", "decl": k, "family": d["fam"], "ty": d["ty"], "tag": d["tag"], "kind": "derive_dropped",
                               "declaration": d["decl_override"], "messages": msgs[:3],
                               "summary": "[%s] %s is accepted but a written derive is not honoured: %s" % (d["tag"], k, msgs[0][:160])})
    stats = {}
    before = len(verdict.violations)
    # violation records need the spelling tag for the known-findings patterns
    by_id = {d["id"]: d for d in decls}
    orig = verdict.violation

    def tagged(rec):
        d = by_id.get(rec.get("decl"))
        if d:
            rec["tag"] = d["tag"]
            rec["spelling_text"] = d.get("spelling_text", "")
            rec["summary"] = "[%s] %s" % (d["tag"], rec["summary"])
        return orig(rec)
    verdict.violation = tagged
    CV.judge_trace("C02", verdict, "c02", alive_decls, obs, stats)
    verdict.violation = orig
    # model drift on verdicts: the transcribed parser predicted accept/reject differently (informational)
    mism = [d["id"] for d in decls if d["model_accepts"] != (d["id"] in set(alive) or d["id"] in probe_failed)]
    if mism:
        verdict.notes.append("%d declarations: real compile verdict differs from the transcribed parser's (drift): %s" % (
            len(mism), ", ".join("%s[%s]" % (m, by_id[m]["tag"]) for m in mism[:8])))
        verdict.drift += len(mism)
    cov = {"states": rb.distinct + rd.distinct + stats.get("trace_states", 0), "transitions": rb.generated + rd.generated,
           "traces_validated_against_impl": stats.get("trace_pairs", 0),
           "spellings": len(spells), "declarations": len(decls), "mixed_validation_blocks": len(mixed), "accepted_by_the_real_macro": len(alive), "rejected": len(rejected),
           "evaluations": stats.get("trace_pairs", 0), "distinct_nontrivial": len(alive),
           "rule": "every spelling of the catalogue (x i8/i32/f64 x two validator kinds) and every repeated-block / block-order layout is compiled against /repo; "
                   "accepted ones are driven at the cells around the DENOTED bound (and around the value the transcribed parser predicts) and validated by TLC "
                   "against the declaration a reader of the source understands; rejected ones satisfy C02",
           "samples": [{"bound": d.get("spelling_text"), "type": d["ty"], "tag": d["tag"]} for d in decls[:6]],
           "exhaustive": True}
    ev = {"tier": tier(), "seed": seed(), "level": "model_checking", "coverage": cov,
          "assumptions": ["catalogue denotations (constants K, M2, five()) are rendered by the harness from the values TLC assigns"]}
    return verdict.finish(ev, t.s())

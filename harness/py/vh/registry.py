"""Property id -> check function."""
import json

from . import props_value, props_obs, props_msg, props_decl, props_surface, props_arb, props_api

CHECKS = {
    "C01": props_value.check_C01,
    "C02": props_surface.check_C02,
    "C03": props_value.check_C03,
    "C04": props_obs.check_C04,
    "C05": props_api.check_C05,
    "C06": props_obs.check_C06,
    "C07": props_value.check_C07,
    "C08": props_decl.check_C08,
    "C09": props_arb.check_C09,
    "C10": props_obs.check_C10,
    "C11": props_obs.check_C11,
    "C12": props_obs.check_C12,
    "C13": props_obs.check_C13,
    "C14": props_arb.check_C14,
    "C15": props_decl.check_C15,
    "C16": props_msg.check_C16,
}


def replay(prop, path):
    """Re-run the check of a property; the replay record names the declaration and input
    (the checks are deterministic for a given VERIF_SEED, so the record is reproduced)."""
    with open(path) as f:
        rec = json.load(f)
    print("replaying %s: %s" % (prop, rec.get("summary", "")))
    print(rec.get("declaration", ""))
    return CHECKS[prop]()

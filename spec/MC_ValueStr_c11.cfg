SPECIFICATION Spec
CONSTANTS
  Tier = "c11"
  DeclSeq <- MCDeclSeq
  InputsOf <- MCInputsOf
  EpsOf <- MCEpsOf
  Prim <- MCPrim
  MEnv = 0
INVARIANTS
  MeetsDeclarative
  FunctionFormAgrees
  WrapsSanitized
  FirstViolated
  NeverWrapsInvalid
  PanicOnlyFromInvalidDefault
  Canonical
  EmitDecl
CHECK_DEADLOCK FALSE

import sys, os, random, json
sys.path.insert(0, "/verif/harness/py")
from vh import value_layer as VL, checks_value as CV, props_value as PV
from vh.common import Timer, seed
from vh.tlc import json_rows
t = Timer()
rng = random.Random(3)
decls = []
import glob
for fam, mod in PV.MC_MODULE.items():
    out = "/verif/work/tlc/mc_%s_%s_quick/tlc.out" % (fam, mod)
    from vh.tlc import _parse_tuple, _ROW
    rows = []
    for line in open(out):
        if line.startswith('<<"DECL"'):
            tup = _parse_tuple(line.strip()); rows.append((tup[1], json.loads(tup[2])))
    adecls = [o for _, o in sorted(rows)]
    sample = CV.sample_decls(adecls, 8, rng, must=lambda ad: ad["vmode"] != "std")
    decls += CV.instantiate_slice(fam, sample, rng, "b" + fam[0], lifts=1)
print(len(decls))
def rows_of(d):
    ins = [VL.enc_value(d, v) for v in CV.inputs_for(d, rng, 5)][:40]
    rows = []
    for ep in ["canon", "canon_tf", "canon_disp", "canon_serde", "views"]:
        rows.append({"d": d["id"], "ep": ep, "ins": ins})
    rows.append({"d": d["id"], "ep": "cmp", "ins": [[a, b] for a in ins[:6] for b in ins[:6]]})
    rows.append({"d": d["id"], "ep": "ser", "ins": [{"fmt": f, "v": v} for f in ("json", "ron", "msgpack") for v in ins[:10]]})
    rows.append({"d": d["id"], "ep": "deser", "ins": [{"fmt": f, "pos": p, "val": v} for f in ("json", "ron", "msgpack", "msgpack_named") for p in ("top", "vec", "opt", "field", "mapval", "tuple", "mapkey") for v in ins[:6]]})
    return rows
obs, rej, alive = CV.build_and_run("t_build", decls, rows_of, ["serde", "regex"], ["serde", "regex", "serde_json"], nshards=4)
print("built", len(alive), "rejected", len(rej), t.s())
for k, v in list(rej.items())[:8]: print(k, v[:3])
for p in obs[:1]:
    for line in open(p).readlines()[:40]:
        o = json.loads(line)
        print(o["d"], o["ep"], json.dumps(o["b"][:2])[:400])

----------------------------- MODULE Trace_Decl -----------------------------
(***************************************************************************)
(* Trace validation of compile verdicts (C08, C02, C15).  IOEnv.DECLS maps *)
(* a declaration id to its surface record (as emitted by MC_Decl);         *)
(* IOEnv.TRACE has one event per declaration built against the real macro: *)
(*   [d, verdict : "accepted" | "rejected", capture, ran_tests, tests]      *)
(* tests = <<name, "ok" | "FAILED">> of the unit tests nutype generated    *)
(* into the crate, as reported by the crate's test binary.                 *)
(* A verdict that contradicts the reference predicate Class is BAD; one    *)
(* that only differs from the transcribed pipeline OpVerdict is DRIFT.     *)
(***************************************************************************)
EXTENDS NutypeDecl, Json, IOUtils, TLCExt

Rec   == ndJsonDeserialize(IOEnv.TRACE)
Decls == JsonDeserialize(IOEnv.DECLS)

VARIABLES l, nbad, ndrift
tvars == <<l, nbad, ndrift>>

\* JSON arrays arrive as sequences; feats is used as a set
Norm(src) == [src EXCEPT !.feats = NRange(src.feats)]

TraceInit == l = 1 /\ nbad = 0 /\ ndrift = 0

Step ==
  /\ l <= Len(Rec)
  /\ LET e == Rec[l]
         src == Norm(Decls[e.d])
         cls == Class(src)
         acc == e.verdict = "accepted"
         failed == \E j \in DOMAIN e.tests : e.tests[j][2] = "FAILED"
         \* C08 last clause: for declarations whose generated tests were run, some test fails iff it must
         testsBad == e.ran_tests /\ acc /\ (MustFailATest(src) # failed)
         bad == (cls = "reject" /\ acc) \/ (cls = "accept" /\ ~acc) \/ testsBad
         drift == ~bad /\ (acc # OpAccepts(src)) /\ ~e.capture
     IN /\ (bad => PrintT(<<"BAD", l, 1, ToJson([d |-> e.d, class |-> cls, verdict |-> e.verdict, op |-> OpVerdict(src),
                                               tests_bad |-> testsBad, must_fail |-> MustFailATest(src), tests |-> e.tests])>>))
        /\ (drift => PrintT(<<"DRIFT", l, 1, ToJson([d |-> e.d, class |-> cls, verdict |-> e.verdict, op |-> OpVerdict(src)])>>))
        /\ nbad' = nbad + (IF bad THEN 1 ELSE 0)
        /\ ndrift' = ndrift + (IF drift THEN 1 ELSE 0)
  /\ l' = l + 1

TraceSpec == TraceInit /\ [][Step]_tvars

TraceConsumed ==
  IF TLCGet("stats").diameter - 1 = Len(Rec) THEN TRUE
  ELSE PrintT(<<"UNCONSUMED", TLCGet("stats").diameter - 1, Len(Rec)>>) /\ FALSE

Report == (l = Len(Rec) + 1) =>
  PrintT(<<"SUMMARY", ToJson([events |-> Len(Rec), pairs |-> Len(Rec), bad |-> nbad, drift |-> ndrift])>>)
=============================================================================

"""Run-time layer pipeline: TLC declaration rows -> concrete declarations -> generated crate ->
observations -> projected trace -> TLC trace validation."""
import copy
import json
import os
import random

from .common import WORK, ToolError, ensure_dir, log, seed
from .crate import Crate
from .driver_value import render_module, render_main
from .tlc import run_tlc, json_rows, validate_trace
from .values import (INT_TYPES, CONCRETE_INT, FLOAT_TYPES, IntProjector, FloatProjector,
                     f_enc, f_dec, f_bits, f_from_bits, f_class)
from . import render_value

ORDER_ONLY_SAN = {"clamp", "to_k", "nan_to"}
ORDER_ONLY_PRED = {"ne"}


# ------------------------------------------------------------------ TLC -> abstract declarations

def mc_decls(module, cfg, name, env=None):
    r = run_tlc(module, cfg, name, workers=16, env=env)
    rows = json_rows(r, "DECL")
    decls = [obj for (_i, obj) in sorted(rows, key=lambda t: t[0])]
    if not decls:
        raise ToolError("model checking run %s/%s emitted no declarations" % (module, cfg))
    return r, decls


# ------------------------------------------------------------------ integers

def _lift_int(src_ty, dst_ty):
    slo, shi = INT_TYPES[src_ty]
    dlo, dhi = INT_TYPES[dst_ty]

    def phi(v):
        if v == slo:
            return dlo
        if v == slo + 1 and slo != 0:
            return dlo + 1
        if v == shi:
            return dhi
        if v == shi - 1:
            return dhi - 1
        return v
    return phi


def int_order_only(ad):
    """can this declaration be judged on order-isomorphic ranks instead of concrete values?"""
    if ad["vmode"] == "custom":
        return False
    for s in ad["san"]:
        if s["k"] == "with" and s["fn"] not in ORDER_ONLY_SAN:
            return False
    for r in ad["val"]:
        if r["k"] == "predicate" and r["fn"] not in ORDER_ONLY_PRED:
            return False
    return True


def instantiate_int(ad, ty, did):
    """abstract 8-bit declaration -> concrete declaration at integer type `ty`."""
    phi = _lift_int(ad["ty"], ty)
    d = copy.deepcopy(ad)
    d["id"] = did
    d["src_ty"] = ad["ty"]
    d["ty"] = ty
    for s in d["san"]:
        s["p"] = [phi(v) for v in s["p"]]
    for r in d["val"]:
        r["b"] = phi(r["b"])
        r["p"] = [phi(v) for v in r["p"]]
    d["dflt"] = [phi(v) for v in d["dflt"]]
    d["_phi"] = phi
    return d


def int_landmarks(d):
    lo, hi = INT_TYPES[d["ty"]]
    L = {lo, hi, 0, 1, 5}
    if lo < 0:
        L.add(-1)
    for s in d["san"]:
        L.update(s["p"])
    for r in d["val"]:
        if r["k"] in ("greater", "greater_or_equal", "less", "less_or_equal"):
            L.add(r["b"])
        L.update(r["p"])
    L.update(d["dflt"])
    return {v for v in L if lo <= v <= hi}


def int_inputs(d, rng, nrandom):
    lo, hi = INT_TYPES[d["ty"]]
    slo, shi = INT_TYPES[d["src_ty"]]
    phi = d["_phi"]
    vals = {phi(v) for v in range(slo, shi + 1)}
    for L in int_landmarks(d):
        for k in range(-2, 3):
            vals.add(L + k)
    for _ in range(nrandom):
        vals.add(rng.randint(lo, hi))
    return sorted(v for v in vals if lo <= v <= hi)


# ------------------------------------------------------------------ floats

ABS_FLOAT = {   # abstract point of MC_ValueFloat -> (f32 bits, f64 bits, literal text or None)
    "ninf": (0xff800000, 0xfff0000000000000, None),
    "nmax": (0xff7fffff, 0xffefffffffffffff, None),
    "n55": (0xc0b00000, 0xc016000000000000, "-5.5"),
    "ntiny": (0x80000001, 0x8000000000000001, None),
    "nz": (0x80000000, 0x8000000000000000, "-0.0"),
    "pz": (0x00000000, 0x0000000000000000, "0.0"),
    "ptiny": (0x00000001, 0x0000000000000001, None),
    "p55": (0x40b00000, 0x4016000000000000, "5.5"),
    "pmax": (0x7f7fffff, 0x7fefffffffffffff, None),
    "pinf": (0x7f800000, 0x7ff0000000000000, None),
    "nan1": (0x7fc00000, 0x7ff8000000000000, None),
    "nan2": (0xffc00001, 0xfff8000000000001, None),
}
for _u, (_b32, _b64, _lit) in ABS_FLOAT.items():
    if _lit is not None:
        render_value.FLOAT_LITS[("f32", _b32)] = _lit
        render_value.FLOAT_LITS[("f64", _b64)] = _lit


def instantiate_float(ad, ty, did):
    """abstract float declaration (values [c, r, u]) -> concrete declaration (values = bit patterns)."""
    ix = 0 if ty == "f32" else 1

    def phi(v):
        return ABS_FLOAT[v["u"]][ix]
    d = copy.deepcopy(ad)
    d["id"] = did
    d["ty"] = ty
    for s in d["san"]:
        s["p"] = [phi(v) for v in s["p"]]
    for r in d["val"]:
        r["b"] = phi(r["b"])
        r["p"] = [phi(v) for v in r["p"]]
        if r.get("sp") == "lit" and r["k"] in ("greater", "greater_or_equal", "less", "less_or_equal") \
                and (ty, r["b"]) not in render_value.FLOAT_LITS:
            r["sp"] = "expr"
    d["dflt"] = [phi(v) for v in d["dflt"]]
    return d


def float_specials(ty):
    ix = 0 if ty == "f32" else 1
    S = {v[ix] for v in ABS_FLOAT.values()}
    w = FLOAT_TYPES[ty]
    mant = 23 if w == 32 else 52
    one = f_bits(ty, 1.0)
    S.update({one, f_bits(ty, -1.0), one + 1, one - 1,
              (1 << mant),            # min normal
              (1 << mant) - 1,        # max subnormal
              f_bits(ty, 5.5) + 1, f_bits(ty, 5.5) - 1,
              f_bits(ty, -5.5) + 1, f_bits(ty, -5.5) - 1,
              # NaNs: signalling payloads, all-ones payload, negative quiet
              ((1 << (w - 1 - mant)) - 1 << mant) | 1,
              ((1 << (w - 1)) - 1),
              (1 << w) - 1})
    return S


def float_inputs(d, rng, nrandom):
    ty = d["ty"]
    w = FLOAT_TYPES[ty]
    vals = set(float_specials(ty))
    marks = set()
    for s in d["san"]:
        marks.update(s["p"])
    for r in d["val"]:
        if r["k"] in ("greater", "greater_or_equal", "less", "less_or_equal"):
            marks.add(r["b"])
        marks.update(r["p"])
    for b in marks:
        for k in (-2, -1, 1, 2):
            if 0 <= b + k < (1 << w):
                vals.add(b + k)
    for _ in range(nrandom):
        vals.add(rng.getrandbits(w))
    return sorted(vals)


# ------------------------------------------------------------------ strings / any

SIGMA = [0, 32, 8195, 97, 65, 223, 304, 233, 769, 49]
# real-Unicode probes beyond the model alphabet (the environment tables of the events cover them)
WHITE_SPACE = [0x9, 0xA, 0xB, 0xC, 0xD, 0x20, 0x85, 0xA0, 0x1680] + list(range(0x2000, 0x200B)) + [0x2028, 0x2029, 0x202F, 0x205F, 0x3000]
SPECIAL_STRINGS = [
    [0x391, 0x3A3], [0x3A3], [0x3A3, 0x391], [0x61, 0x3A3, 0x20], [0x3C2],          # final sigma contexts
    [0x130], [0x49, 0x307], [0x131], [0xDF], [0x1E9E], [0xFB00], [0xFB01], [0x149],  # case-expanding
    [0x1F88], [0x1C5], [0x10400], [0x1F600], [0xE9], [0x65, 0x301], [0x200B], [0xFEFF],
    [0x61, 0x0, 0x62], [0x41, 0x42, 0x43, 0x44], [0x61] * 5, [0x20, 0x61, 0x20, 0x62, 0x20],
    [0x61, 0xA], [0x61, 0xA, 0x62], [0x61, 0x2E], [0x62, 0x61, 0x2D],                  # `.` in a regex matches everything but a line feed
]


# long inputs: beyond every length bound, more than 4 * max + 4 bytes, mixed character widths with no char boundary at
# byte 48, combining sequences (always part of the string inputs, also when a sample of the inputs is taken)
LONG_STRINGS = [
    [0x62] * 30,
    [0x1F600] * 8,
    [0x44, 0x72, 0x2E, 0x20] + [0x65E5, 0x672C, 0x8A9E] * 20,
    [0x61] + [0x6F, 0x308] * 40,
    [0x61] + [0x20] * 40 + [0x62],
]


def instantiate_plain(ad, did):
    d = copy.deepcopy(ad)
    d["id"] = did
    if d["fam"] == "string":
        d["dflt"] = [tuple(v) for v in d["dflt"]]
    if d["fam"] == "any":
        d["dflt"] = [tuple(v) for v in d["dflt"]]
        if d["ty"] == "Vec<T>":
            d["inner"] = "Vec<T>"
            d["gen_decl"] = "<T: Ord>"
            d["gen_use"] = "<i32>"
        elif d["ty"] == "Point":
            d["inner"] = "Point"
        elif d["ty"] == "Vec<u8>":
            d["inner"] = "Vec<u8>"
        elif d["ty"] == "Gen<Point>":
            d["inner"] = "T"
            d["inner_use"] = "Point"
            d["gen_decl"] = "<T>"
            d["gen_use"] = "<Point>"
        elif d["ty"] == "Cow<[i32]>":
            # a lifetime-generic newtype: Nt<'a>(Cow<'a, [i32]>) used at 'static
            d["inner"] = "::std::borrow::Cow<'a, [i32]>"
            d["inner_use"] = "::std::borrow::Cow<'static, [i32]>"
            d["gen_decl"] = "<'a>"
            d["gen_use"] = "<'static>"
        else:
            d["inner"] = "Vec<i32>"
    return d


def string_inputs(d, rng, nrandom):
    vals = {()}
    for a in SIGMA:
        vals.add((a,))
        for b in SIGMA:
            vals.add((a, b))
    for _ in range(60):
        vals.add(tuple(rng.choice(SIGMA) for _ in range(3)))
    for w in WHITE_SPACE:
        vals.add((w,))
        vals.add((w, 0x61, w))
        vals.add((0x61, w, 0x62))
    for sp in SPECIAL_STRINGS:
        vals.add(tuple(sp))
        vals.add(tuple([0x20] + sp + [0x3000]))
    for sp in LONG_STRINGS:
        vals.add(tuple(sp))
    pool = SIGMA + WHITE_SPACE + [0x3A3, 0x130, 0xDF, 0xFB01, 0x1F600, 0x42, 0x7A, 0x5A, 0x39]
    for _ in range(nrandom):
        n = rng.randint(0, 6)
        if rng.random() < 0.5:
            vals.add(tuple(rng.choice(pool) for _ in range(n)))
        else:
            out = []
            for _ in range(n):
                c = rng.randint(0, 0x10FFFF)
                if 0xD800 <= c <= 0xDFFF:
                    c = 0x61
                out.append(c)
            vals.add(tuple(out))
    return sorted(vals)


def any_inputs(d, rng, nrandom):
    if d.get("ty") in ("Point", "Gen<Point>"):
        vals = {(a, b) for a in (1, 2, 3) for b in (1, 2, 3)}
        vals |= {(0, 0), (-1, 1), (1, -1), (2**31 - 1, -2**31), (-2**31, 2**31 - 1), (7, 7)}
        for _ in range(nrandom):
            vals.add((rng.randint(-50, 50), rng.randint(-50, 50)))
        return sorted(vals)
    vals = {()}
    E = [1, 2, 3]
    for a in E:
        vals.add((a,))
        for b in E:
            vals.add((a, b))
            for c in E:
                vals.add((a, b, c))
    lo = 0 if d.get("ty") == "Vec<u8>" else -5
    for _ in range(nrandom):
        vals.add(tuple(rng.randint(lo, 5) for _ in range(rng.randint(0, 5))))
    if d.get("ty") == "Vec<u8>":
        vals.add((0, 255, 128))
    return sorted(vals)


# ------------------------------------------------------------------ script / observation handling

def direct_eps(d):
    eps = ["try_new" if d["vmode"] != "none" else "new"]
    t = d["traits"]
    if "TryFrom" in t:
        eps.append("try_from")
        if d["fam"] == "string":
            eps.append("try_from_ref")
    if "From" in t:
        eps.append("from")
        if d["fam"] == "string":
            eps.append("from_ref")
    if d["fam"] == "string" and "FromStr" in t:
        eps.append("from_str_s")
    return eps


def enc_value(d, v):
    if d["fam"] == "int":
        return str(v)
    if d["fam"] == "float":
        return f_enc(d["ty"], v)
    if d["fam"] == "string":
        return list(v)
    if d["fam"] == "any":
        return [str(x) for x in v]
    raise KeyError(d["fam"])


def dec_value(d, j):
    if d["fam"] == "int":
        return int(j)
    if d["fam"] == "float":
        return f_dec(j)[1]
    if d["fam"] == "string":
        return tuple(j)
    if d["fam"] == "any":
        return tuple(int(x) for x in j)
    raise KeyError(d["fam"])


class Projector:
    """concrete values of one declaration -> model values."""

    def __init__(self, d):
        self.d = d
        fam = d["fam"]
        self.p = IntProjector(d["ty"]) if fam == "int" else FloatProjector(d["ty"]) if fam == "float" else None

    def add(self, v):
        if self.p is not None:
            self.p.add(v)

    def freeze(self):
        if self.p is not None:
            self.p.freeze()

    def model(self, v):
        if self.p is not None:
            return self.p.model(v)
        return list(v)

    def model_decl(self):
        d = self.d
        fam = d["fam"]
        m = {"fam": fam, "ty": d["ty"], "vmode": d["vmode"], "traits": list(d["traits"])}
        bounded = ("greater", "greater_or_equal", "less", "less_or_equal")
        m["san"] = [{"k": s["k"], "fn": s["fn"], "p": [self.model(v) for v in s["p"]]} for s in d["san"]]
        vals = []
        for r in d["val"]:
            if fam in ("int", "float"):
                b = self.model(r["b"]) if r["k"] in bounded else self.model(self.zero())
            else:
                b = r["b"]
            vals.append({"k": r["k"], "b": b, "fn": r["fn"], "p": [self.model(v) for v in r["p"]], "sp": r.get("sp", "lit")})
        m["val"] = vals
        m["dflt"] = [self.model(v) for v in d["dflt"]]
        if fam == "int":
            lo, hi = INT_TYPES[d["ty"]]
            m["tmin"], m["tmax"] = self.model(lo), self.model(hi)
        return m

    def zero(self):
        return 0


VIEW_VALUE_FIELDS = ("into_inner", "as_ref", "deref", "borrow", "borrow2", "into", "clone", "iter", "iter_ref")
CANON_EPS = ("canon", "canon_tf", "canon_disp", "canon_serde", "canon_fmt", "canon_via_from_str", "canon_via_try_from", "canon_via_from", "canon_via_deser", "canon_via_deser_seq", "canon_via_deser_ronv", "canon_via_deser_mp")


def item_values(d, ep, inp, out, x):
    """every concrete value of the declaration's inner type occurring in one observation."""
    vals = []
    k = out.get("k")
    if k in ("skip", "noep"):
        return vals
    if ep in ("parse", "deser", "deser_any"):
        inner = x["inner"]
        if inner["ok"]:
            vals.append(dec_value(d, inner["v"][0]))
    elif ep in CANON_EPS or ep in ("views", "ser"):
        vals.append(dec_value(d, x["v"]))
    elif ep == "cmp":
        vals.append(dec_value(d, x["a"]))
        vals.append(dec_value(d, x["b"]))
    elif ep == "arb":
        if k == "ok":
            vals.append(dec_value(d, out["v"]))
        return vals
    elif ep in ("try_new_const", "new_const"):
        vals.append(dec_value(d, inp["v"]))
    elif ep == "arb_hit":
        vals.append(dec_value(d, inp["t"]))
        if k == "ok":
            vals.append(dec_value(d, out["v"]))
        return vals
    elif ep == "arb_cover":
        for lo_, hi_ in out.get("runs", []):
            vals.append(int(lo_))
            vals.append(int(hi_))
        return vals
    elif ep == "sort":
        for f in (x.get("made", []), out.get("sorted", []), out.get("set", []), out.get("max", [])):
            for v in f:
                vals.append(dec_value(d, v))
        return vals
    elif ep != "default":
        vals.append(dec_value(d, inp))
    if k == "ok" and "v" in out:
        vals.append(dec_value(d, out["v"]))
    if ep == "views":
        for f in VIEW_VALUE_FIELDS:
            for v in out.get(f, []):
                vals.append(dec_value(d, v))
    return vals


def collect_values(d, proj, batches):
    """feed every concrete value of the declaration and its observations to the projector."""
    if proj.p is None:
        return
    bounded = ("greater", "greater_or_equal", "less", "less_or_equal")
    proj.add(proj.zero())
    for s in d["san"]:
        for v in s["p"]:
            proj.add(v)
    for r in d["val"]:
        if r["k"] in bounded:
            proj.add(r["b"])
        for v in r["p"]:
            proj.add(v)
    for v in d["dflt"]:
        proj.add(v)
    if d["fam"] == "int":
        # keep the neighbours of every bound and of the type limits in the table, so that on rank-projected
        # types rank(b) + 1 = rank(b + 1) (the generator models add and subtract one)
        lo, hi = INT_TYPES[d["ty"]]
        marks = {lo, hi} | {r["b"] for r in d["val"] if r["k"] in bounded}
        for mk_ in marks:
            for k_ in (-2, -1, 0, 1, 2):
                if lo <= mk_ + k_ <= hi:
                    proj.add(mk_ + k_)
    for b in batches:
        for (inp, out, x) in b["b"]:
            for v in item_values(d, b["ep"], inp, out, x):
                proj.add(v)


def model_out(d, proj, out):
    k = out.get("k")
    if k == "ok":
        return {"k": "ok", "v": [proj.model(dec_value(d, out["v"]))], "e": ""}
    if k == "err":
        return {"k": "err", "v": [], "e": out["e"]}
    if k in ("panic", "perr", "derr", "aerr", "sererr"):
        return {"k": k, "v": [], "e": ""}
    raise ToolError("unexpected outcome from driver: %r" % (out,))


def model_env(x):
    if not x or not x.get("env"):
        return []
    return x["env"]


def model_item(d, proj, ep, inp, out, x):
    """-> (model input, model outcome, env) or None when the observation carries nothing to judge."""
    k = out.get("k")
    if k == "noep":
        raise ToolError("driver of %s has no entry point %s" % (d["id"], ep))
    if k == "skip":
        return None
    env = model_env(x) if d["fam"] == "string" else None
    if ep == "default":
        return {"ok": True, "v": []}, model_out(d, proj, out), env
    if ep in ("parse", "deser", "deser_any"):
        inner = x["inner"]
        mi = {"ok": inner["ok"], "v": [proj.model(dec_value(d, inner["v"][0]))] if inner["ok"] else []}
        if d["fam"] == "string" and not inner["ok"]:
            env = {"trim": [], "lower": [], "upper": []}
        return mi, model_out(d, proj, out), env
    if ep in ("try_new_const", "new_const"):
        return {"ok": True, "v": [proj.model(dec_value(d, inp["v"]))]}, model_out(d, proj, out), env
    if ep in CANON_EPS:
        if not x.get("rt", True):
            return None      # the environment itself does not round-trip this value: nothing is demanded
        return {"ok": True, "v": [proj.model(dec_value(d, x["v"]))]}, model_out(d, proj, out), env
    if ep == "views":
        if k == "panic":
            return {"ok": True, "v": [proj.model(dec_value(d, x["v"]))]}, {"panic": True}, None
        o = {}
        for f in VIEW_VALUE_FIELDS:
            if f in out:
                o[f] = [proj.model(dec_value(d, v)) for v in out[f]]
        for f in ("disp", "ptr"):
            if f in out:
                o[f] = out[f]
        return {"ok": True, "v": [proj.model(dec_value(d, x["v"]))]}, o, None
    if ep == "cmp":
        if k == "panic":
            o = {"cmp": "panic", "ipcmp": "?"}
        else:
            o = {f: out[f] for f in ("eq", "ieq", "pcmp", "ipcmp", "cmp", "hash") if f in out}
        return {"ok": True, "v": [proj.model(dec_value(d, x["a"])), proj.model(dec_value(d, x["b"]))]}, o, None
    if ep == "arb":
        if k == "hang":
            return {"ok": True, "v": [list(inp)]}, {"k": "hang", "v": [], "e": ""}, None
        return {"ok": True, "v": [list(inp)]}, model_out(d, proj, out), None
    if ep == "arb_hit":
        mi = {"ok": True, "v": [list(inp["bytes"]), proj.model(dec_value(d, inp["t"]))]}
        if k == "hang":
            return mi, {"k": "hang", "v": [], "e": ""}, None
        return mi, model_out(d, proj, out), None
    if ep == "arb_cover":
        if k == "hang":      # the generator did not return on some input: reported as a cover that produced nothing and failed
            return {"ok": True, "v": []}, {"runs": [], "panics": 1000000, "errs": 0, "oks": 0}, None
        return ({"ok": True, "v": []},
                {"runs": [[proj.model(int(a)), proj.model(int(b))] for a, b in out["runs"]],
                 "panics": min(int(out["panics"]), 1000000), "errs": min(int(out["errs"]), 1000000), "oks": min(int(out["oks"]), 1000000)}, None)
    if ep == "sort":
        made = [proj.model(dec_value(d, v)) for v in x.get("made", [])] if x else []
        if k == "panic":
            return {"ok": True, "v": [made]}, {"k": "panic", "sorted": [], "set": [], "max": []}, None
        return ({"ok": True, "v": [made]},
                {"k": "ok", "sorted": [proj.model(dec_value(d, v)) for v in out["sorted"]],
                 "set": [proj.model(dec_value(d, v)) for v in out["set"]],
                 "max": [proj.model(dec_value(d, v)) for v in out["max"]]}, None)
    if ep == "ser":
        return {"ok": True, "v": [proj.model(dec_value(d, x["v"]))]}, {"k": k, "same": bool(out.get("same")), "ref_ok": bool(out.get("ref_ok"))}, None
    return {"ok": True, "v": [proj.model(dec_value(d, inp))]}, model_out(d, proj, out), env


sweep_stats = {}


def project(decls_by_id, obs_path):
    """observations -> (model decl table, trace events, index for reporting)."""
    by_decl = {}
    with open(obs_path) as f:
        for line in f:
            if line.strip():
                o = json.loads(line)
                if o["ep"] == "sweep":
                    # aggregated sweep: every witness becomes an ordinary constructor pair
                    d0 = decls_by_id[o["d"]]
                    pairs = []
                    for (_inp, out, _x) in o["b"]:
                        if out.get("k") != "multi":
                            raise ToolError("sweep of %s returned %r" % (o["d"], out))
                        sweep_stats["calls"] = sweep_stats.get("calls", 0) + int(out["calls"])
                        sweep_stats["cell_classes"] = sweep_stats.get("cell_classes", 0) + int(out["cell_classes"])
                        for (wi, wo, wx) in out["pairs"]:
                            pairs.append([wi, wo, wx])
                    o = {"d": o["d"], "ep": "try_new" if d0["vmode"] != "none" else "new", "b": pairs}
                by_decl.setdefault(o["d"], []).append(o)
    table, events, index = {}, [], []
    for did, batches in by_decl.items():
        d = decls_by_id[did]
        proj = Projector(d)
        collect_values(d, proj, batches)
        proj.freeze()
        table[did] = proj.model_decl()
        for b in batches:
            ins, outs, envs, raw = [], [], [], []
            for (inp, out, x) in b["b"]:
                it = model_item(d, proj, b["ep"], inp, out, x)
                if it is None:
                    continue
                mi, mo, env = it
                ins.append(mi)
                outs.append(mo)
                if d["fam"] == "string" and b["ep"] not in ("views", "cmp", "ser", "sort", "arb", "arb_hit", "arb_cover"):
                    envs.append(env if env is not None else [])
                raw.append((inp, out, x))
            if not ins:
                continue
            ep = "canon" if b["ep"] in CANON_EPS else {"try_new_const": "try_new", "new_const": "new"}.get(b["ep"], b["ep"])
            events.append({"d": did, "ep": ep, "ins": ins, "outs": outs, "envs": envs})
            index.append((did, b["ep"], raw))
    return table, events, index


def write_trace(dirpath, table, events):
    ensure_dir(dirpath)
    tp, dp = os.path.join(dirpath, "trace.ndjson"), os.path.join(dirpath, "decls.json")
    with open(tp, "w") as f:
        for e in events:
            f.write(json.dumps(e) + "\n")
    with open(dp, "w") as f:
        json.dump(table, f)
    return tp, dp

SPECIFICATION FSpec
INVARIANTS
  NoPanicF
  EmitShape
  EmitPanic
CHECK_DEADLOCK FALSE

--------------------------- MODULE HistoryMachine ---------------------------
(***************************************************************************)
(* Histories of one newtype value (C11, and the "no entry point mutates a  *)
(* stored value" part of C05/C13): a value is created through some entry   *)
(* point and then fed back, up to MaxDepth times, through any chain of     *)
(*   into_inner -> try_new | TryFrom,  Display -> FromStr,                 *)
(*   Serialize -> Deserialize                                              *)
(* The environment is assumed faithful on stored values (Display/FromStr   *)
(* and serde of the INNER type round-trip; the harness only demands the    *)
(* property where it observes exactly that).                               *)
(*                                                                         *)
(* DECLARATIVE: for guards with idempotent sanitisation (Builtin) every    *)
(* re-entry yields Ok of the same value (StaysPut); for all guards a       *)
(* re-entry yields exactly what the constructor yields on the stored value *)
(* (ReEntryIsConstructor).                                                 *)
(***************************************************************************)
EXTENDS NutypeValue

CONSTANTS
  HDecls,          \* set of declarations
  HInputs(_),      \* raw inputs per declaration
  HEnv,
  MaxDepth

VARIABLES hd, live, depth, last, via
hvars == <<hd, live, depth, last, via>>

Paths == {"ctor", "try_from", "display_from_str", "serde"}

HInit == /\ hd \in HDecls /\ live = <<>> /\ depth = 0 /\ last = NoneOut /\ via = "none"

\* a client creates a value
Create(raw) ==
  /\ live = <<>> /\ depth = 0
  /\ LET o == OpCtor(hd, raw, HEnv) IN
     /\ last' = o /\ via' = "create"
     /\ live' = IF IsOk(o) THEN <<OutVal(o)>> ELSE <<>>
     /\ depth' = IF IsOk(o) THEN 1 ELSE 0
  /\ UNCHANGED hd

\* the stored value is fed back through an entry point (all of them delegate to the constructor)
ReEnter(p) ==
  /\ live # <<>> /\ depth >= 1 /\ depth <= MaxDepth
  /\ LET o == OpCall(hd, CASE p = "ctor" -> CtorName(hd) [] p = "try_from" -> "try_from"
                          [] p = "display_from_str" -> (IF hd.fam = "string" THEN "from_str_s" ELSE "parse")
                          [] p = "serde" -> "deser",
                     In(live[1]), HEnv) IN
     /\ last' = o /\ via' = p
     /\ live' = IF IsOk(o) THEN <<OutVal(o)>> ELSE live
     /\ depth' = depth + 1
  /\ UNCHANGED hd

HNext == (\E raw \in HInputs(hd) : Create(raw)) \/ (\E p \in Paths : ReEnter(p))
HSpec == HInit /\ [][HNext]_hvars

\* C11: a re-entered value stays the same value
StaysPut == (via \in Paths /\ Builtin(hd)) => (IsOk(last) /\ <<OutVal(last)>> = live)

\* every re-entry computes the constructor's declarative outcome on the stored value
ReEntryIsConstructor ==
  [][\A p \in Paths : ReEnter(p) => last' = DeclCtor(hd, live[1], HEnv, CodeNanPolicy)]_hvars

\* nothing but a successful re-entry replaces the stored value, and for Builtin guards it never changes
NeverMutates == [][(live # <<>> /\ Builtin(hd)) => live' = live]_hvars
=============================================================================

#!/bin/sh
# MANIFEST.setup_cmd: build the framework from files on disk only (offline).
#  - parse every specification module with SANY
#  - pre-build the support crate / helper tools and the dependency crates of the harness workspace
set -e
cd "$(dirname "$0")"
export CARGO_NET_OFFLINE=true
mkdir -p work evidence replays
for m in spec/*.tla; do
  (cd spec && tla-sany "$(basename "$m")") > work/sany.out 2>&1 || { tail -20 work/sany.out; echo "SANY failed on $m"; exit 2; }
done
python3 - <<'PY'
import sys
sys.path.insert(0, "harness/py")
from vh import strenv
strenv.verify()
print("setup: StrEnv.tla matches std")
PY
echo "setup: ok"

#!/bin/bash
# regression under another VERIF_SEED (checks must stay quiet for every seed)
HERE="$(cd "$(dirname "$0")/.." && pwd)"
export VERIF_TLC_CACHE_DIR=/tmp/verif_tlc_cache VERIF_SEED=$1 VERIF_WORK=$HERE/work_seedvar_$1 VERIF_EVID=/tmp/seedvar_$1_evid VERIF_REPLAYS=/tmp/seedvar_$1_replays
cd $HERE
for C in C01 C02 C03 C04 C05 C06 C07 C08 C09 C10 C11 C12 C13 C14 C15 C16; do
  s=$(date +%s)
  ./check $C --tier quick > /tmp/seedvar_$1_$C.log 2>&1
  rc=$?
  e=$(date +%s)
  echo "seed=$1 $C exit=$rc $((e-s))s $(grep -c '^VIOLATION' /tmp/seedvar_$1_$C.log) violations $(grep '^TOOL-ERROR' /tmp/seedvar_$1_$C.log | head -1 | cut -c1-150) $(grep 'by tag' /tmp/seedvar_$1_$C.log | cut -c1-200)"
done
rm -rf $VERIF_WORK

"""C14 (integer Arbitrary covers the valid range) and C09 (derived Arbitrary is total and valid)."""
import json
import random

from .common import ToolError, Verdict, Timer, seed, tier
from . import value_layer as VL
from . import checks_value as CV
from .tlc import run_tlc, json_rows
from .values import INT_TYPES, ARITH_INT


def arbint_rows():
    r = run_tlc("MC_ArbInt", "MC_ArbInt.cfg", "mc_arbint", workers=16)
    rows = [obj for (_i, obj) in json_rows(r, "DECL")]
    if not rows:
        raise ToolError("MC_ArbInt emitted no declarations")
    rows.sort(key=lambda o: json.dumps(o["d"], sort_keys=True))
    return r, rows


def tag_of(d):
    if any(r.get("sp") in ("shl", "and") and r["k"] in ("greater", "less") for r in d["val"]):
        return "arb_precedence"
    if d["san"] and d["vmode"] == "std" and any(s_.get("fn") == "dbl_sat" for s_ in d["san"]):
        return "arb_int_sanitizer_subset"
    if d["san"] and d["vmode"] == "std":
        return "arb_int_sanitizer"
    return ""


def valid_size(d):
    lo, hi = INT_TYPES[d["ty"]]
    for r in d["val"]:
        if r["k"] == "greater":
            lo = max(lo, r["b"] + 1)
        elif r["k"] == "greater_or_equal":
            lo = max(lo, r["b"])
        elif r["k"] == "less":
            hi = min(hi, r["b"] - 1)
        elif r["k"] == "less_or_equal":
            hi = min(hi, r["b"])
    return hi - lo + 1


def valid_range(d):
    lo, hi = INT_TYPES[d["ty"]]
    for r in d["val"]:
        if r["k"] == "greater":
            lo = max(lo, r["b"] + 1)
        elif r["k"] == "greater_or_equal":
            lo = max(lo, r["b"])
        elif r["k"] == "less":
            hi = min(hi, r["b"] - 1)
        elif r["k"] == "less_or_equal":
            hi = min(hi, r["b"])
    return lo, hi


def hit_inputs(d):
    """byte strings that must make the generator produce chosen valid values of a range too wide to enumerate:
    int_in_range reads ceil(bits(hi - lo) / 8) bytes big-endian and adds them (mod hi - lo + 1) to lo."""
    lo, hi = valid_range(d)
    tlo, thi = INT_TYPES[d["ty"]]
    width = ((thi - tlo).bit_length() + 7) // 8
    delta = hi - lo
    n = min(width, (delta.bit_length() + 7) // 8)
    targets = {lo, hi, lo + 1, hi - 1, (lo + hi) // 2, lo + 2 ** 16 + 3, lo + 2 ** 32 + 5, lo + 2 ** 64 + 7, hi - 2 ** 32 - 5, lo + 255, lo + 256}
    out = []
    for v in sorted(t for t in targets if lo <= t <= hi):
        out.append({"bytes": list((v - lo).to_bytes(n, "big")), "t": VL.enc_value(d, v)})
    return out


def instantiate(rows, rng, lifts):
    decls = []
    for i, obj in enumerate(rows):
        ad = obj["d"]
        d = VL.instantiate_int(ad, ad["ty"], "ai%04d" % i)
        d["tag"] = tag_of(d)
        decls.append(d)
        signed = INT_TYPES[ad["ty"]][0] < 0
        tys = [t for t in INT_TYPES if (INT_TYPES[t][0] < 0) == signed and t not in (ad["ty"], "u128")]
        rot = i % len(tys)
        tys = tys[rot:] + tys[:rot]
        n = 0
        for ty2 in tys:
            if n >= lifts:
                break
            if any(r.get("sp") in ("shl", "and", "plus") for r in ad["val"]) or ad["san"]:
                continue
            if ty2 in ARITH_INT or VL.int_order_only(ad):
                d2 = VL.instantiate_int(ad, ty2, "ai%04d_%s" % (i, ty2))
                d2["tag"] = tag_of(d2)
                decls.append(d2)
                n += 1
    return decls


def byte_inputs(rng, n):
    ins = [[], [0], [255], [0, 0], [255, 255], [0] * 16, [255] * 16, [128] * 8, [1, 2, 3, 4, 5, 6, 7, 8, 9, 10, 11, 12, 13, 14, 15, 16]]
    for ln in (1, 2, 3, 4, 8, 16, 17, 32, 64):
        for pat in (0x00, 0x01, 0x7F, 0x80, 0xFE, 0xFF):
            ins.append([pat] * ln)
    for _ in range(n):
        ins.append([rng.randrange(256) for _ in range(rng.randint(0, 24))])
    return ins


def check_C14():
    t = Timer()
    q = tier() == "quick"
    rng = random.Random(seed())
    verdict = Verdict("C14")
    r, rows = arbint_rows()
    # declarations with a sanitizer: the obtainable set is the image of the valid inputs; compared on i8/u8 only
    if q and len(rows) > 160:
        # sanitizer declarations (the shape of the repaired defect 39e03ec) are always in the sample
        keep = [o for o in rows if o["d"]["san"] and o["d"]["vmode"] == "std"]
        rest = [o for o in rows if not (o["d"]["san"] and o["d"]["vmode"] == "std")]
        dbl = [o for o in keep if o.get("subset")]
        others = [o for o in keep if not o.get("subset")]
        rows = dbl + rng.sample(others, min(len(others), 40)) + rng.sample(rest, 120)
    decls = instantiate(rows, rng, 1 if q else 3)
    cover = [d for d in decls if valid_size(d) <= 65536 and valid_size(d) >= 1]
    by_id = {d["id"]: d for d in decls}

    def rows_of(d):
        out = [{"d": d["id"], "ep": "arb", "ins": byte_inputs(rng, 40 if q else 400)}]
        if not d["san"] and d["vmode"] != "custom" and valid_size(d) > 65536:
            out.append({"d": d["id"], "ep": "arb_hit", "ins": hit_inputs(d)})
        if valid_size(d) <= 65536 and valid_size(d) >= 1:
            out.append({"d": d["id"], "ep": "arb_cover", "ins": [None]})
        return out
    obs, rejected, alive = CV.build_and_run("c14", decls, rows_of, ["serde", "arbitrary"], ["serde", "arbitrary"], nshards=4, release=False)
    alive_decls = [d for d in decls if d["id"] in set(alive)]
    stats = {}
    orig = verdict.violation

    def tagged(rec):
        d = by_id.get(rec.get("decl"))
        if d:
            rec["tag"] = d["tag"]
            ob = rec.get("observed", {})
            rec["observed_kind"] = ob.get("k")
            if rec.get("ep") == "arb_cover":
                rec["observed_kind"] = "cover_without_panic" if ob.get("k") == "obs" and not ob.get("panics") else ("hang" if ob.get("k") == "hang" else "cover_with_panic")
            rec["summary"] = "[%s] %s" % (d["tag"] or "-", rec["summary"])
        return orig(rec)
    verdict.violation = tagged
    CV.judge_trace("C14", verdict, "c14", alive_decls, obs, stats)
    verdict.violation = orig
    if rejected:
        verdict.notes.append("%d declarations did not compile: %s" % (len(rejected), json.dumps(dict(list(rejected.items())[:2]))[:300]))
    cov = {"states": r.distinct + stats.get("trace_states", 0), "transitions": r.generated,
           "traces_validated_against_impl": stats.get("trace_pairs", 0),
           "declarations_enumerated_by_tlc": len(rows), "declarations_built": len(decls), "declarations_with_exhaustive_cover": len(cover),
           "byte_strings_per_cover": 65793, "evaluations": stats.get("trace_pairs", 0) + 65793 * len(cover),
           "distinct_nontrivial": len(cover),
           "rule": "TLC explores the exact model of the integer generator (boundary derivation + arbitrary's int_in_range) on i8/u8 for every bound-kind combination, "
                   "landmark and spelling, over every byte string the range consumes; each declaration (and a lifted twin at a wider type when its range has at most 2^16 values) "
                   "is compiled and its generator is run on ALL byte strings of length 0..2; TLC validates that the produced set, logged as contiguous runs, equals the valid interval",
           "samples": [{"declaration": CV.describe_decl(cover[0]).strip().splitlines()[-5:]}] if cover else ["none"],
           "exhaustive": True}
    ev = {"tier": tier(), "seed": seed(), "level": "model_checking", "coverage": cov,
          "assumptions": ["arbitrary 1.3.2's int_in_range consumes at most two bytes for ranges of at most 2^16 values (transcribed and model-checked in NutypeArb.tla)"]}
    return verdict.finish(ev, t.s())


# ------------------------------------------------------------------ C09

import struct
from .values import f_bits, FLOAT_TYPES
from . import render_value


def le_bytes(n, w):
    return [(n >> (8 * i)) & 0xFF for i in range(w)]


def float_shape_decls(shapes):
    """concrete f32/f64 declarations for every shape of MC_ArbFloat."""
    decls = []
    n = 0
    for sh in shapes:
        s = sh["sh"]
        for ty in ("f32", "f64"):
            fmax = 3.4028235e38 if ty == "f32" else 1.7976931348623157e308
            two = s["lk"] != "none" and s["uk"] != "none"
            if two:
                from .values import f_from_bits
                def up(x, k, ty=ty):
                    return f_from_bits(ty, f_bits(ty, x) + k)
                if s["overflow"]:
                    pairs = [(-fmax, fmax), (float("-inf"), float("inf")), (-fmax, float("inf"))]
                elif s["absorbed"]:
                    # (the last two: three and two representable values apart - the range holds one value when both ends are exclusive)
                    pairs = [(1000.0, 2000.0), (-1e30, 1e30), (65.0, 66.0), (1e30, up(1e30, 3)), (1000.0, up(1000.0, 2))]
                else:
                    pairs = [(1.0, 2.0), (-1.5, 2.5), (0.001, 0.002), (1.0, up(1.0, 2)), (0.0, up(0.0, 2)), (-up(0.0, 1), up(0.0, 1))]
                bounds = [(lo, hi) for lo, hi in pairs]
            else:
                if s["overflow"]:
                    vals = [fmax]
                elif s["absorbed"]:
                    vals = [100.0, 1e6, -1e30]
                else:
                    vals = [1.0, -1.0, 0.0]
                bounds = [(v, None) if s["lk"] != "none" else (None, v) for v in vals] if (s["lk"] != "none" or s["uk"] != "none") else [(None, None)]
            for lo, hi in bounds:
                if s["finite"] and s["lk"] == "greater" and lo is not None and lo >= fmax:
                    continue      # `finite, greater = MAX`: no valid value at all, outside C09's precondition
                val = []
                if s["finite"]:
                    val.append({"k": "finite", "b": 0, "fn": "", "p": [], "sp": "lit"})
                if lo is not None:
                    val.append({"k": s["lk"], "b": f_bits(ty, lo), "fn": "", "p": [], "sp": "expr"})
                if hi is not None:
                    val.append({"k": s["uk"], "b": f_bits(ty, hi), "fn": "", "p": [], "sp": "expr"})
                if not val:
                    continue
                n += 1
                decls.append({"id": "af%04d" % n, "fam": "float", "ty": ty, "san": [], "vmode": "std", "val": val,
                              "traits": ["Debug", "Clone", "Copy", "PartialEq", "Arbitrary"], "dflt": [], "shape": s,
                              "tag": float_tag(s)})
    return decls


def float_tag(s):
    two = s["lk"] != "none" and s["uk"] != "none"
    if s["overflow"]:
        return "arb_float_overflow"
    if s["absorbed"] and (s["lk"] == "greater" or s["uk"] == "less"):
        return "arb_float_delta_absorbed"
    return ""


def float_inputs(d, rng, n):
    w = FLOAT_TYPES[d["ty"]] // 8
    mx = (1 << (8 * w)) - 1
    ins = [[], [0] * w, [0xFF] * w, le_bytes(mx // 2, w), le_bytes(1, w), le_bytes(mx - 1, w), [0] * 64, [0xFF] * 64]
    for x in (0.0, -0.0, 1.0, -1.0, 0.5, 1e-40, 3.0e38) + ((1e300,) if w == 8 else ()):
        ins.append(le_bytes(f_bits(d["ty"], x), w))
    spec = [0x7f800000, 0xff800000, 0x7fc00000, 0xffc00001, 0x7f7fffff, 0xff7fffff] if w == 4 else \
           [0x7ff0000000000000, 0xfff0000000000000, 0x7ff8000000000000, 0xfff8000000000001, 0x7fefffffffffffff, 0xffefffffffffffff]
    for b in spec:
        ins.append(le_bytes(b, w))
        ins.append(le_bytes(b, w) + le_bytes(f_bits(d["ty"], 2.5), w))
    for ln in (1, 2, 3, 5, 7, 9, 16, 33):
        for pat in (0x00, 0x01, 0x7F, 0x80, 0xFE, 0xFF):
            ins.append([pat] * ln)
    for _ in range(n):
        ins.append([rng.randrange(256) for _ in range(rng.randint(0, 20))])
    return ins


def float_input_class(d, inp):
    w = FLOAT_TYPES[d["ty"]] // 8
    b = list(inp[:w]) + [0] * (w - len(inp[:w]))
    x = sum(v << (8 * i) for i, v in enumerate(b))
    mx = (1 << (8 * w)) - 1
    s = d["shape"]
    if s["lk"] != "none" and s["uk"] != "none":
        return "t=0" if x == 0 else ("t=1" if x == mx else "t=mid")
    from .values import f_class
    c = f_class(d["ty"], x)
    if c != "num":
        return c
    return "zero" if (x & (mx >> 1)) == 0 else "num"


def string_inputs_arb(d, rng, n):
    pool = [97, 32, 0xDF, 0x130, 0x2003, 0, 65, 0x1C5, 0x3A3, 0xFB01, 0x41]
    ins = [[], [0], [255], [0] * 70, [255] * 70]
    for t in range(0, 20):
        for c in pool[:6]:
            ins.append([t] + le_bytes(c, 4) * 20)
        ins.append([t] + le_bytes(32, 4) + le_bytes(97, 4) * 19)
        ins.append([t] + le_bytes(97, 4) * 2 + le_bytes(32, 4) * 18)
        ins.append([t] + le_bytes(32, 4) * 3 + le_bytes(0xDF, 4) * 17)
        ins.append([t] + le_bytes(97, 4) + le_bytes(32, 4) * 45)            # one visible character, then a long run of white space
        ins.append([t] + le_bytes(97, 4) * 40)
        ins.append([t] + le_bytes(32, 4) + le_bytes(0xDF, 4) * 3 + le_bytes(32, 4) + le_bytes(0x130, 4) * 3 + le_bytes(97, 4) * 30)
        ins.append([t] + le_bytes(32, 4) * 40 + le_bytes(97, 4) * 3)
    for _ in range(n):
        t = rng.randrange(256)
        body = []
        for _ in range(rng.randint(0, 22)):
            body += le_bytes(rng.choice(pool) if rng.random() < 0.8 else rng.randrange(0x110000), 4)
        ins.append([t] + body[:rng.randint(0, len(body))] if body else [t])
    for ln in (1, 2, 3, 4, 5, 8, 9, 16, 64):
        for pat in (0x00, 0x01, 0x20, 0x7F, 0x80, 0xFE, 0xFF):
            ins.append([pat] * ln)
    return ins


def string_tag(obj):
    if obj["shadow"]:
        return "arb_str_min_shadowed"
    if obj["known"] and obj["expands"]:
        return "arb_str_case_expands"
    return "arb_str_other" if obj["known"] else ""


def check_C09():
    t = Timer()
    q = tier() == "quick"
    rng = random.Random(seed())
    verdict = Verdict("C09")
    # --- model checking: three generator models
    ri, irows = arbint_rows()
    rs = run_tlc("MC_ArbStr", "MC_ArbStr.cfg", "mc_arbstr", workers=16)
    srows = sorted([obj for (_i, obj) in json_rows(rs, "DECL")], key=lambda o: json.dumps(o["d"], sort_keys=True))
    rf = run_tlc("MC_ArbFloat", "MC_ArbFloat.cfg", "mc_arbfloat", workers=8)
    shapes = sorted([obj for (_i, obj) in json_rows(rf, "SHAPE")], key=lambda o: json.dumps(o["sh"], sort_keys=True))
    model_panics = set()
    for (_i, obj) in json_rows(rf, "PANIC"):
        s = obj["sh"]
        two = s["lk"] != "none" and s["uk"] != "none"
        cls = {0: "t=0", 2: "t=mid", 4: "t=1"}[obj["inp"]["t"]] if two else {"zero": "zero", "pos": "num", "maxfinite": "num", "inf": "inf"}[obj["inp"]["b"]]
        model_panics.add((json.dumps(s, sort_keys=True), cls))
    # --- declarations
    if q:
        ik = [o for o in irows if o["d"]["san"] and o["d"]["vmode"] == "std"]      # shape of the repaired defect 39e03ec
        ik.sort(key=lambda o: not o.get("subset"))
        io = [o for o in irows if not (o["d"]["san"] and o["d"]["vmode"] == "std")]
        dblk = [o for o in ik if o.get("subset")]
        irows = dblk + rng.sample([o for o in ik if not o.get("subset")], min(30, len(ik) - len(dblk))) + rng.sample(io, min(70, len(io)))
        sk = [o for o in srows if o["known"]]
        so = [o for o in srows if not o["known"]]
        # two minimum-like rules (not_empty + len_char_min): the shape of the repaired defect 3251cda is always replayed
        both = [o for o in so if {"not_empty", "len_char_min"} <= {r["k"] for r in o["d"]["val"]}]
        both = rng.sample(both, min(24, len(both)))
        # a case sanitizer together with len_char_max: the shape of the repaired defect (case mappings that add characters)
        casey = [o for o in so if o not in both and o["expands"] and any(r["k"] == "len_char_max" for r in o["d"]["val"])]
        both += rng.sample(casey, min(24, len(casey)))
        rest = [o for o in so if o not in both]
        srows = rng.sample(sk, min(50, len(sk))) + both + rng.sample(rest, min(60, len(rest)))
    idecls = instantiate(irows, rng, 1)
    sdecls = []
    for i, obj in enumerate(srows):
        d = VL.instantiate_plain(obj["d"], "as%04d" % i)
        d["tag"] = string_tag(obj)
        if i % 3 == 0 and not any(r["k"] == "len_char_max" for r in d["val"]):
            # a large minimum without a maximum (the generator's default maximum is minimum + 16)
            for r in d["val"]:
                if r["k"] == "len_char_min":
                    r["b"] = 20
        sdecls.append(d)
    fdecls = float_shape_decls(shapes)
    if q and len(fdecls) > 140:
        fdecls = rng.sample(fdecls, 140)
    adecl = {"id": "aa0001", "fam": "any", "ty": "Vec<i32>", "inner": "Vec<i32>", "san": [{"k": "with", "fn": "sort", "p": []}], "vmode": "none", "val": [],
             "traits": ["Debug", "Clone", "PartialEq", "Arbitrary"], "dflt": [], "tag": ""}
    groups = [("c09_int", idecls, lambda d: byte_inputs(rng, 60 if q else 600)),
              ("c09_str", sdecls, lambda d: string_inputs_arb(d, rng, 80 if q else 1500)),
              ("c09_float", fdecls, lambda d: float_inputs(d, rng, 60 if q else 1500)),
              ("c09_any", [adecl], lambda d: byte_inputs(rng, 40))]
    stats = {}
    ndecl = 0
    for name, decls, gen in groups:
        by_id = {d["id"]: d for d in decls}

        def rows_of(d, _gen=gen):
            return [{"d": d["id"], "ep": "arb", "ins": _gen(d)}]
        obs, rejected, alive = CV.build_and_run(name, decls, rows_of, ["serde", "arbitrary"], ["serde", "arbitrary"], nshards=4)
        if rejected:
            verdict.notes.append("%s: %d declarations did not compile: %s" % (name, len(rejected), json.dumps(dict(list(rejected.items())[:2]))[:300]))
        alive_decls = [d for d in decls if d["id"] in set(alive)]
        ndecl += len(alive_decls)
        orig = verdict.violation

        def tagged(rec, _by=by_id):
            d = _by.get(rec.get("decl"))
            if d is not None:
                rec["tag"] = d.get("tag", "")
                if d["fam"] == "float":
                    rec["input_class"] = float_input_class(d, rec.get("input") or [])
                    rec["shape"] = d["shape"]
                    rec["predicted_by_design_model"] = (json.dumps(d["shape"], sort_keys=True), rec["input_class"]) in model_panics
                rec["observed_kind"] = rec.get("observed", {}).get("k")
                rec["summary"] = "[%s] %s" % (rec["tag"] or "-", rec["summary"])
            return orig(rec)
        verdict.violation = tagged
        CV.judge_trace("C09", verdict, name, alive_decls, obs, stats)
        verdict.violation = orig
    cov = {"states": ri.distinct + rs.distinct + rf.distinct + stats.get("trace_states", 0), "transitions": ri.generated + rs.generated + rf.generated,
           "traces_validated_against_impl": stats.get("trace_pairs", 0), "declarations_built": ndecl,
           "float_shapes": len(shapes), "float_shape_input_classes_failing_in_design_model": len(model_panics),
           "evaluations": stats.get("trace_pairs", 0), "distinct_nontrivial": stats.get("nontrivial_pairs", 0),
           "rule": "three generator models are model-checked (integer: exact; string: exact over character classes; float: design model of the scaling/adjust arithmetic); "
                   "their declarations / shapes are instantiated, compiled and driven with empty, all-00/all-FF, boundary-pattern, model-derived (target length + little-endian chars, "
                   "from0to1 = 0, 1/2, 1, basic value zero/max/inf/NaN) and random byte strings under catch_unwind with a watchdog; every outcome is validated by TLC (ArbOK)",
           "samples": [{"bytes": [0, 0, 0, 0], "note": "from0to1 = 0"}], "exhaustive": False}
    ev = {"tier": tier(), "seed": seed(), "level": "model_checking", "coverage": cov,
          "assumptions": ["arbitrary 1.3.2 semantics (int_in_range, char, zero padding of exhausted input) as transcribed in NutypeArb.tla"]}
    return verdict.finish(ev, t.s())

#!/usr/bin/env python3
"""File confirmed seeded changes of a wave into /verif/seeded.
usage: file_seed.py <prefix> <wave> <first_n> <PROP>...
  reads /tmp/<prefix>_<PROP>_out/{patch_N.diff,demo_N,notes_N.md} (N = 1, 2), runs tools/confirm_seed.sh in the
  author's scratch worktree /tmp/<prefix>_<PROP> and, when confirmed, files the change as seeded/<PROP>_<first_n+N-1>/."""
import json
import os
import shutil
import subprocess
import sys

HERE = os.path.dirname(os.path.dirname(os.path.abspath(__file__)))
prefix, wave, first = sys.argv[1], int(sys.argv[2]), int(sys.argv[3])
head = subprocess.run(["git", "-C", "/repo", "rev-parse", "--short", "HEAD"], capture_output=True, text=True).stdout.strip()
for prop in sys.argv[4:]:
    out = "/tmp/%s_%s_out" % (prefix, prop)
    for n in (1, 2):
        patch = os.path.join(out, "patch_%d.diff" % n)
        if not os.path.exists(patch) or os.path.getsize(patch) == 0:
            print("%s %d: no patch" % (prop, n))
            continue
        env = dict(os.environ, SEED_PREFIX=prefix)
        subprocess.run(["bash", os.path.join(HERE, "tools", "confirm_seed.sh"), prop, str(n)], env=env)
        log = open("/tmp/confirm_%s_%s_%d.log" % (prefix, prop, n)).read().splitlines()
        ok = any(l.startswith("RESULT") and " confirmed" in l for l in log)
        print("%s %d: %s" % (prop, n, [l for l in log if l.startswith("RESULT")] or log[-2:]))
        if not ok:
            continue
        dst = os.path.join(HERE, "seeded", "%s_%d" % (prop, first + n - 1))
        if os.path.exists(dst):
            shutil.rmtree(dst)
        os.makedirs(dst)
        shutil.copy(patch, os.path.join(dst, "patch.diff"))
        demo = os.path.join(out, "demo_%d" % n)
        if os.path.isdir(demo):
            shutil.copytree(demo, os.path.join(dst, "demo"), ignore=shutil.ignore_patterns("target"))
        notes = os.path.join(out, "notes_%d.md" % n)
        needs = ""
        if os.path.exists(notes):
            shutil.copy(notes, os.path.join(dst, "notes.md"))
            needs = open(notes).read().strip().splitlines()[0][:300]
        meta = {"property": prop, "wave": wave, "needs": needs,
                "confirmed_by": "tools/confirm_seed.sh (SEED_PREFIX=%s) in the author's scratch worktree of /repo HEAD %s: patch applies; "
                                "`cargo test --workspace --no-fail-fast --offline` all pass with the patch; demo/run.sh exits non-zero with the patch and 0 without" % (prefix, head),
                "confirm_log": [l for l in log if l.startswith(("tests exit", "demo with", "RESULT"))],
                "detected_by": None}
        json.dump(meta, open(os.path.join(dst, "meta.json"), "w"), indent=1)

------------------------------- MODULE MC_Decl -------------------------------
(***************************************************************************)
(* The expansion pipeline as a state machine over slices of the documented *)
(* attribute grammar.  One behaviour = one declaration going through       *)
(*   ParseMeta -> ParseBlocks -> ValidateGuard -> ValidateTraits ->        *)
(*   Generate -> Rustc                                                     *)
(* TLC checks, for every declaration of every slice, that the pipeline's   *)
(* verdict agrees with the independent reference predicate Class (C08)     *)
(* and that an accepted declaration enforces everything that was written   *)
(* (C02) - except for the candidate defects listed in Known*, each of      *)
(* which is then confirmed or refuted on the real macro by the harness.    *)
(***************************************************************************)
EXTENDS NutypeDecl, Json, SequencesExt

CONSTANTS Tier

AllFeats == {"serde", "regex", "arbitrary", "new_unchecked", "schemars08"}

Blk(bk) == [bk |-> bk, san |-> <<>>, val |-> <<>>, der |-> <<>>, dfl |-> ""]
SanB(items) == [Blk("sanitize") EXCEPT !.san = items]
ValB(items) == [Blk("validate") EXCEPT !.val = items]
DerB(items) == [Blk("derive") EXCEPT !.der = items]
DflB(x) == [Blk("default") EXCEPT !.dfl = x]
S(w) == [w |-> w, fn |-> ""]
V(w, b, sp) == [w |-> w, b |-> b, sp |-> sp, fn |-> ""]
VF(w, fn, sp) == [w |-> w, b |-> 0, sp |-> sp, fn |-> fn]

TyOf(fam) == CASE fam = "int" -> "i32" [] fam = "float" -> "f64" [] fam = "string" -> "String" [] fam = "any" -> "Vec<i32>"

Src(fam, blocks, feats) ==
  [fam |-> fam, ty |-> TyOf(fam), name |-> "Nt", tparams |-> <<>>, shape |-> "tuple", fieldvis |-> "",
   outer |-> "", blocks |-> blocks, feats |-> feats]

\* a plain validator list of each validation kind
ValOf(fam, vk) ==
  CASE vk = "none"   -> <<>>
    [] vk = "std"    -> (CASE fam = "int" -> <<ValB(<<V("greater_or_equal", 1, "lit")>>)>>
                          [] fam = "float" -> <<ValB(<<V("greater_or_equal", 1, "lit")>>)>>
                          [] fam = "string" -> <<ValB(<<V("not_empty", 0, "lit")>>)>>
                          [] fam = "any" -> <<ValB(<<VF("predicate", "non_empty", "lit")>>)>>)
    [] vk = "std2"   -> <<ValB(<<V("greater_or_equal", 1, "lit"), V("less_or_equal", 3, "lit")>>)>>       \* a two-sided range is not `finite`
    [] vk = "finite" -> <<ValB(<<V("finite", 0, "lit")>>)>>
    [] vk = "finite2" -> <<ValB(<<V("greater", 1, "lit"), V("finite", 0, "lit"), V("less", 3, "lit")>>)>>
    [] vk = "custom" -> <<ValB(<<VF("with", "cat", "lit"), VF("error", "cat", "lit")>>)>>

VKinds(fam) == IF fam = "float" THEN {"none", "std", "std2", "finite", "finite2", "custom"} ELSE {"none", "std", "custom"}

\* companions Rust itself requires, so that the trait under test is the only variable
Companions(t) ==
  CASE t = "Copy" -> {"Clone"}
    [] t = "Eq" -> {"PartialEq"}
    [] t = "PartialOrd" -> {"PartialEq"}
    [] t = "Ord" -> {"Eq", "PartialEq", "PartialOrd"}
    [] OTHER -> {}

TraitOrder == <<"Debug", "Clone", "Copy", "PartialEq", "Eq", "PartialOrd", "Ord", "FromStr", "AsRef", "Deref",
                "TryFrom", "From", "Into", "Hash", "Borrow", "Display", "Default", "IntoIterator",
                "Serialize", "Deserialize", "JsonSchema", "Arbitrary">>
AsSeq(D) == SelectSeq(TraitOrder, LAMBDA t : t \in D)

\* ---- slice T: family x validation kind x single traits and pairs (x default given or not)
TraitSets ==
  {{t} : t \in AllTraits} \cup {{t} \cup Companions(t) : t \in AllTraits}
  \cup (IF Tier = "quick"
        THEN {({t1, t2} \cup Companions(t1) \cup Companions(t2)) : t1 \in {"From", "TryFrom", "Eq", "Ord", "Default", "Arbitrary", "Hash", "Copy"}, t2 \in AllTraits}
        ELSE {({t1, t2} \cup Companions(t1) \cup Companions(t2)) : t1 \in AllTraits, t2 \in AllTraits})
SliceT ==
  UNION {{Src(fam, ValOf(fam, vk) \o <<DerB(AsSeq(D))>> \o dfl, AllFeats) :
            vk \in VKinds(fam), D \in TraitSets, dfl \in {<<>>, <<DflB("valid")>>}} : fam \in Families}

\* ---- slice B: numeric bounds in every relative position, literal and expression spelling
Pos == {<<1, 3>>, <<2, 2>>, <<3, 1>>, <<1, 2>>}
SliceB ==
  UNION {
    {Src(fam, <<ValB(<<V(lk, p[1], s1), V(uk, p[2], s2)>>)>>, AllFeats),
     Src(fam, <<ValB(<<V(uk, p[2], s2), V(lk, p[1], s1)>>)>>, AllFeats)}
    : fam \in {"int", "float"}, lk \in LowerKinds, uk \in UpperKinds, p \in Pos, s1 \in {"lit", "expr", "lit_us"}, s2 \in {"lit", "expr"}}
  \cup {Src(fam, <<ValB(<<V("greater", 1, sp), V("greater_or_equal", 1, sp)>>)>>, AllFeats) : fam \in {"int", "float"}, sp \in {"lit", "expr"}}
  \cup {Src(fam, <<ValB(<<V("less", 3, sp), V("less_or_equal", 3, sp)>>)>>, AllFeats) : fam \in {"int", "float"}, sp \in {"lit", "expr"}}
  \cup {Src(fam, <<ValB(<<V(k, 2, "lit"), V(k, 2, "lit")>>)>>, AllFeats) : fam \in {"int", "float"}, k \in LowerKinds \cup UpperKinds}

\* ---- slice S: string sanitizers / validators, wrong family, wrong case, duplicates
SanNames == {"trim", "lowercase", "uppercase", "Trim", "TRIM", "strip", "finite"}
SliceS ==
  {Src("string", <<SanB(<<S(a), S(b)>>)>>, AllFeats) : a \in SanNames, b \in SanNames}
  \cup {Src("string", <<SanB(<<S(a)>>)>>, AllFeats) : a \in SanNames}
  \* lists of three: a duplicate that is NOT adjacent to its twin (and duplicate-free controls)
  \cup {Src("string", <<SanB(<<S(a), S(b), S(c)>>)>>, AllFeats) : a \in {"trim", "lowercase", "uppercase"}, b \in {"trim", "lowercase"}, c \in {"trim", "lowercase", "uppercase"}}
  \cup {Src("string", <<ValB(<<V(a, 1, "lit"), V(b, 3, "lit"), V(c, 1, "lit")>>)>>, AllFeats) :
           a \in {"not_empty", "len_char_min"}, b \in {"len_char_max", "not_empty"}, c \in {"not_empty", "len_char_min"}}
  \cup {Src(fam, <<ValB(<<V(a, 1, "lit"), V(b, 3, "lit"), V(c, 1, "lit")>>)>>, AllFeats) :
           fam \in {"int", "float"}, a \in {"greater_or_equal", "greater"}, b \in {"less_or_equal", "less"}, c \in {"greater_or_equal", "greater"}}
  \cup {Src(fam, <<SanB(<<S(a)>>)>>, AllFeats) : fam \in {"int", "float", "any"}, a \in {"trim", "lowercase", "with"}}
  \cup {Src("string", <<ValB(<<V("len_char_min", p[1], s1), V("len_char_max", p[2], s2)>>)>>, AllFeats) : p \in Pos, s1 \in {"lit", "expr"}, s2 \in {"lit", "expr"}}
  \cup {Src("string", <<ValB(<<V(a, 1, "lit"), V(b, 1, "lit")>>)>>, AllFeats) : a \in {"not_empty", "len_char_min", "NotEmpty", "finite", "greater"}, b \in {"not_empty", "len_char_max"}}
  \cup {Src(fam, <<ValB(<<V(a, 1, "lit")>>)>>, AllFeats) : fam \in {"int", "float", "any"}, a \in {"not_empty", "len_char_max", "finite", "greater", "Greater", "max"}}
  \cup {Src("string", <<ValB(<<VF("regex", fn, sp)>>)>>, feats) : fn \in {"re_lower", "re_invalid", "re_toobig"}, sp \in {"lit", "expr"}, feats \in {AllFeats, AllFeats \ {"regex"}}}

\* ---- slice F: feature-gated items with and without their feature
SliceF ==
  UNION {{Src(fam, <<DerB(<<t>>)>>, feats) : fam \in {"int", "float", "string"},
                                              feats \in {AllFeats, AllFeats \ {FeatureOfTrait(t)}, {}}}
         : t \in {"Serialize", "Deserialize", "JsonSchema", "Arbitrary"}}
  \cup {Src(fam, <<Blk("new_unchecked")>>, feats) : fam \in Families, feats \in {AllFeats, AllFeats \ {"new_unchecked"}, {}}}
  \cup {Src(fam, <<Blk("const_fn")>>, {}) : fam \in {"int", "float"}}
  \cup {Src(fam, <<Blk("bogus")>>, AllFeats) : fam \in Families}

\* ---- slice N: type and type-parameter names that generated code also uses
Names == {"Nt", "D", "DE", "S", "T", "E", "Error", "Value", "Visitor"}
NameTraits == {<<"Serialize">>, <<"Deserialize">>, <<"Debug", "FromStr">>, <<"Serialize", "Deserialize">>, <<"Debug", "Display">>, <<"Debug", "Clone", "PartialEq", "Eq", "PartialOrd", "Ord", "Hash">>}
SliceN ==
  UNION {{[Src(fam, vb \o <<DerB(tr)>>, AllFeats) EXCEPT !.name = n] : n \in Names, tr \in NameTraits,
             vb \in {<<>>, ValOf(fam, "std")}} : fam \in {"int", "string"}}
  \cup {[Src("any", <<DerB(tr)>>, AllFeats) EXCEPT !.tparams = <<n>>, !.ty = "Vec<" \o n \o ">"] :
          n \in {"T", "D", "DE", "S", "E", "U"}, tr \in {<<"Serialize">>, <<"Deserialize">>, <<"Debug", "Clone">>, <<"Debug", "Into">>, <<"Debug", "AsRef", "Deref", "Borrow", "From">>}}

\* ---- slice M: struct shape, field visibility, outer attributes
SliceM ==
  {[Src(fam, <<DerB(<<"Debug">>)>>, AllFeats) EXCEPT !.fieldvis = fv, !.outer = o, !.shape = sh] :
     fam \in Families, fv \in {"", "pub", "pub(crate)"}, o \in {"", "derive", "foreign", "doc", "derive_path", "tool"}, sh \in {"tuple"}}
  \cup {[Src("int", <<>>, AllFeats) EXCEPT !.shape = sh] : sh \in {"named", "unit", "empty", "enum"}}

\* ---- slice V: shapes of the validate block
SliceV ==
  {Src(fam, <<ValB(items)>>, AllFeats) : fam \in Families,
     items \in {<<>>, <<VF("with", "cat", "lit")>>, <<VF("error", "cat", "lit")>>,
                <<VF("with", "cat", "lit"), VF("error", "cat", "lit")>>, <<VF("error", "cat", "lit"), VF("with", "cat", "lit")>>,
                <<VF("with", "cat", "lit"), VF("with", "cat", "lit"), VF("error", "cat", "lit")>>,
                <<VF("predicate", "cat", "lit"), VF("with", "cat", "lit"), VF("error", "cat", "lit")>>,
                <<VF("predicate", "cat", "lit"), VF("with", "cat", "lit")>>,
                <<VF("predicate", "cat", "lit"), VF("error", "cat", "lit")>>,
                <<VF("predicate", "cat", "lit"), VF("predicate", "cat", "lit")>>,
                <<VF("predicate", "cat", "lit")>>}}

\* ---- slice R: repeated blocks and block order (C02)
SliceR ==
  {Src("int", <<ValB(<<V("greater_or_equal", 1, "lit")>>), ValB(<<V("less_or_equal", 3, "lit")>>)>>, AllFeats),
   Src("int", <<ValB(<<V("less_or_equal", 3, "lit")>>), DerB(<<"Debug">>), ValB(<<V("greater_or_equal", 1, "lit")>>)>>, AllFeats),
   Src("float", <<ValB(<<V("finite", 0, "lit")>>), ValB(<<V("less", 3, "lit")>>)>>, AllFeats),
   Src("string", <<SanB(<<S("trim")>>), SanB(<<S("lowercase")>>)>>, AllFeats),
   Src("string", <<SanB(<<S("trim")>>), ValB(<<V("not_empty", 0, "lit")>>), SanB(<<S("uppercase")>>)>>, AllFeats),
   Src("string", <<ValB(<<V("not_empty", 0, "lit")>>), ValB(<<V("len_char_max", 2, "lit")>>)>>, AllFeats),
   Src("int", <<DerB(<<"Debug", "Clone">>), DerB(<<"Debug">>)>>, AllFeats),
   Src("int", <<DerB(<<"Debug">>), DerB(<<"Clone">>)>>, AllFeats),
   Src("int", <<DflB("valid"), DerB(<<"Debug", "Default">>), DflB("valid")>>, AllFeats),
   Src("string", <<SanB(<<S("trim")>>), SanB(<<S("trim")>>)>>, AllFeats)}
  \cup {Src("string", p, AllFeats) : p \in Perms({SanB(<<S("trim")>>), ValB(<<V("not_empty", 0, "lit")>>), DerB(<<"Debug">>)})}

\* ---- slice G: what only the generated unit tests can catch: expression bounds, default values
SliceG ==
  {Src(fam, <<ValB(<<V(lk, p[1], "expr"), V(uk, p[2], "expr")>>)>>, AllFeats) :
     fam \in {"int", "float"}, lk \in LowerKinds, uk \in UpperKinds, p \in Pos}
  \* the same with bounds that END IN A CAST (`K1 as i32`): spliced into `assert!(upper > lower)` they must still parse
  \cup {Src(fam, <<ValB(<<V(lk, p[1], "cast"), V(uk, p[2], "cast")>>)>>, AllFeats) :
     fam \in {"int", "float"}, lk \in LowerKinds, uk \in UpperKinds, p \in Pos}
  \cup {Src("string", <<ValB(<<V("len_char_min", p[1], "expr"), V("len_char_max", p[2], "expr")>>)>>, AllFeats) : p \in Pos}
  \cup UNION {{Src(fam, ValOf(fam, vk) \o <<DerB(<<"Debug", "Default">>), DflB(x)>>, AllFeats) : vk \in VKinds(fam) \ {"finite"}, x \in {"valid", "invalid"}} : fam \in Families}

\* ---- slice K: const_fn / default / custom error / generics across the non-string families (C15 builds these in a #![no_std] crate)
SliceK ==
  UNION {{Src(fam, sn \o ValOf(fam, vk) \o <<DerB(AsSeq(D))>> \o dfl \o cf, AllFeats) :
            sn \in {<<>>, <<SanB(<<S("with")>>)>>},
            vk \in VKinds(fam) \ {"finite2"}, dfl \in {<<>>, <<DflB("valid")>>, <<DflB("block")>>}, cf \in {<<>>, <<Blk("const_fn")>>},
            D \in {{"Debug"}, {"Debug", "Clone", "Copy", "PartialEq", "PartialOrd"}, {"Debug", "FromStr", "Display"},
                   {"Debug", "TryFrom", "Into", "AsRef", "Deref", "Borrow"}, {"Serialize", "Deserialize"}, {"Debug", "Default"},
                   {"Debug", "Arbitrary"}, {"Debug", "Clone", "PartialEq", "Eq", "PartialOrd", "Ord", "Hash"}}}
         : fam \in {"int", "float"}}
  \cup {[Src("any", vb \o <<DerB(tr)>>, AllFeats) EXCEPT !.tparams = <<"T">>, !.ty = "Vec<T>"] :
          vb \in {<<>>, ValOf("any", "std"), ValOf("any", "custom")},
          tr \in {<<"Debug", "Clone", "PartialEq">>, <<"Serialize", "Deserialize">>, <<"Debug", "AsRef", "Deref", "Borrow", "TryFrom">>, <<"Debug", "IntoIterator">>, <<"Debug", "Arbitrary">>}}

\* ---- slice L: generic forms (type parameters with and without bounds, lifetimes) x derivable traits x flags:
\* every generated impl must carry the declared parameters and bounds
GenForms == {<< <<"T">>, "Vec<T>" >>, << <<"T: Ord">>, "Vec<T>" >>, << <<"T: Ord + Clone">>, "Vec<T>" >>,
             << <<"'a">>, "::std::borrow::Cow<'a, [i32]>" >>, << <<"'a", "T: Clone">>, "::std::borrow::Cow<'a, [T]>" >>}
LTraits == {<<"Debug">>, <<"Clone">>, <<"PartialEq">>, <<"PartialEq", "Eq">>, <<"PartialEq", "PartialOrd">>,
            <<"PartialEq", "Eq", "PartialOrd", "Ord">>, <<"Hash">>, <<"AsRef">>, <<"Deref">>, <<"Borrow">>, <<"Into">>,
            <<"From">>, <<"TryFrom">>, <<"Serialize">>, <<"Deserialize">>, <<"Arbitrary">>, <<"IntoIterator">>,
            <<"Debug", "Clone", "PartialEq", "Eq", "PartialOrd", "Ord", "Hash", "AsRef", "Deref", "Borrow", "Into", "TryFrom", "Serialize", "Deserialize">>}
SliceL ==
  {[Src("any", sb \o vb \o <<DerB(tr)>> \o nu, AllFeats) EXCEPT !.tparams = g[1], !.ty = g[2]] :
     g \in GenForms, tr \in LTraits, vb \in {<<>>, ValOf("any", "std"), ValOf("any", "custom")},
     sb \in {<<>>, <<SanB(<<S("with")>>)>>}, nu \in {<<>>, <<Blk("new_unchecked")>>}}
  \* the bare type parameter as inner type: here the traits the catalogue inner types lack (Display, FromStr, Copy) can be derived
  \cup {[Src("any", <<DerB(tr)>>, AllFeats) EXCEPT !.tparams = <<"T">>, !.ty = "T"] :
          tr \in {<<"Debug", "FromStr">>, <<"Display">>, <<"Debug", "Display", "FromStr">>, <<"Clone", "Copy">>,
                  <<"Debug", "Clone", "PartialEq", "Eq", "PartialOrd", "Ord", "Hash", "AsRef", "Deref", "Borrow", "Display", "FromStr", "Serialize", "Deserialize">>}}

IsG(src) == src \in SliceG

SrcSet == SliceG \cup SliceK \cup SliceL \cup SliceT \cup SliceB \cup SliceS \cup SliceF \cup SliceN \cup SliceM \cup SliceV \cup SliceR
MCSrcSeq == SetToSeq(SrcSet)

-----------------------------------------------------------------------------
(* Candidate defects: where the transcribed pipeline disagrees with the    *)
(* reference predicate (DESIGN.md section 7).                              *)

\* C08 #8: equal literal bounds with exactly one exclusive side are accepted
KnownEqualBounds(src) ==
  src.fam \in {"int", "float"} /\
  LET val == OpVal(src) IN
  \E i \in Rules(val, LowerKinds) : \E j \in Rules(val, UpperKinds) :
     IsLit(val[i]) /\ IsLit(val[j]) /\ val[i].b = val[j].b
     /\ ((val[i].w = "greater" /\ val[j].w = "less_or_equal") \/ (val[i].w = "greater_or_equal" /\ val[j].w = "less"))

\* C08 #9: generated code introduces generics named D, DE, S
NameCapture(src) ==
  LET D == NRange(OpDer(src)) IN
  \/ (src.name \in {"D", "DE"} /\ "Deserialize" \in D)
  \/ (src.tparams # <<>> /\ src.tparams[1] \in {"D", "DE"} /\ "Deserialize" \in D)
  \/ (src.tparams # <<>> /\ src.tparams[1] = "S" /\ "Serialize" \in D)

\* both candidates are repaired (fixes b519546 and 714c9e2): nothing is excused any more
KnownCandidate(src) == FALSE

VARIABLES si, stage, verdict
dvars == <<si, stage, verdict>>
SRC == MCSrcSeq[si]

StageNames == <<"ParseMeta", "ParseBlocks", "ValidateGuard", "ValidateTraits", "Generate", "Rustc">>

DInit == si \in DOMAIN MCSrcSeq /\ stage = 1 /\ verdict = "running"

\* one pipeline stage
RunStage ==
  /\ verdict = "running"
  /\ LET r == OpStages(SRC)[stage] IN
     IF r # "" THEN verdict' = r /\ stage' = stage
     ELSE IF stage = 6 THEN verdict' = "accepted" /\ stage' = stage
     ELSE verdict' = verdict /\ stage' = stage + 1
  /\ UNCHANGED si

DSpec == DInit /\ [][RunStage]_dvars

DDone == verdict # "running"
Accepted == verdict = "accepted"

\* C08 on the model
AgreesWithReference ==
  DDone => \/ KnownCandidate(SRC)
           \/ (Class(SRC) = "reject" => ~Accepted) /\ (Class(SRC) = "accept" => Accepted)

\* C02 on the model: an accepted declaration enforces everything written (repeated blocks are the candidates)
EnforcesWritten == (DDone /\ Accepted) => (Faithful(SRC) \/ Repeated(SRC))

\* C08 last clause on the model: the generated tests fail exactly when they must
\* (equal expression bounds with an exclusive side used to pass `upper >= lower`; repaired, no candidate is left)
KnownTestGap(src) == FALSE
GeneratedTestsCatch ==
  (DDone /\ Accepted /\ IsG(SRC)) =>
     \/ KnownTestGap(SRC)
     \/ (MustFailATest(SRC) <=> \E t \in OpTests(SRC) : t[2] = "FAILED")

\* the candidates are real disagreements (the lists are exact, not excuses)
\* equal literal bounds with one exclusive side are now refused
CandidatesAreDisagreements ==
  (DDone /\ KnownEqualBounds(SRC) /\ ~Repeated(SRC)) => ~Accepted

EmitSrc == (stage = 1 /\ verdict = "running") =>
  PrintT(<<"DECL", si, ToJson([src |-> SRC, class |-> Class(SRC), op |-> OpVerdict(SRC),
                                 capture |-> FALSE, faithful |-> Faithful(SRC), g |-> IsG(SRC),
                                 mustfail |-> MustFailATest(SRC)])>>)
=============================================================================

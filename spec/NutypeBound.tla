---------------------------- MODULE NutypeBound ----------------------------
(***************************************************************************)
(* C02 for bound spellings: how `validator = <tokens>` is turned into the  *)
(* bound the generated code enforces.                                      *)
(*                                                                         *)
(* A spelling is  [neg, a1, op, a2, ty]:  an optional leading `-`, a first *)
(* atom, and optionally a binary operator with a second atom.  An atom is  *)
(* [k, v]: k = "lit" (number literal; v its magnitude), "hexlit", "suflit" *)
(* (suffixed), "fltlit" (float literal), "const", "paren" (parenthesised   *)
(* literal), "parenc" (parenthesised const), "call".                       *)
(*                                                                         *)
(* DECLARATIVE: Denote(sp) is the value of the whole expression (unary     *)
(* minus binds tightest).                                                  *)
(*                                                                         *)
(* OPERATIONAL: parse_number_or_expr (common/parse/mod.rs:324-367) as the  *)
(* code does it, on the REAL cursor:                                       *)
(*   SpecLiteral : if the next token is `-` consume it; parse a literal;   *)
(*                 render "-"? + text, parse as T                          *)
(*   FallbackExpr: on any failure parse an expression FROM THE CURRENT     *)
(*                 CURSOR (the `-` and/or the literal stay consumed)       *)
(* then the caller expects `,` or the end of the block.                    *)
(***************************************************************************)
EXTENDS Integers, Sequences, FiniteSets, TLC

TMinOf(ty) == CASE ty = "i8" -> -128 [] ty = "i32" -> -100000 [] ty = "u8" -> 0 [] ty = "f64" -> -100000
TMaxOf(ty) == CASE ty = "i8" -> 127 [] ty = "i32" -> 100000 [] ty = "u8" -> 255 [] ty = "f64" -> 100000
Fits(ty, x) == TMinOf(ty) <= x /\ x <= TMaxOf(ty)

NoAtom == [k |-> "none", v |-> 0]

Pow2(n) == IF n = 0 THEN 1 ELSE IF n = 1 THEN 2 ELSE IF n = 2 THEN 4 ELSE IF n = 3 THEN 8 ELSE IF n = 4 THEN 16 ELSE 32
\* bitwise and on the small operands of the catalogue (0..255)
RECURSIVE BitAnd(_, _)
BitAnd(a, b) == IF a = 0 \/ b = 0 THEN 0 ELSE 2 * BitAnd(a \div 2, b \div 2) + (IF a % 2 = 1 /\ b % 2 = 1 THEN 1 ELSE 0)

Apply(op, x, y) ==
  CASE op = "+"  -> x + y
    [] op = "-"  -> x - y
    [] op = "*"  -> x * y
    [] op = "<<" -> x * Pow2(y)
    [] op = "&"  -> BitAnd(x, y)

\* DECLARATIVE: the value the written expression denotes
Denote(sp) ==
  LET first == IF sp.neg THEN -sp.a1.v ELSE sp.a1.v IN
  IF sp.op = "" THEN first ELSE Apply(sp.op, first, sp.a2.v)

\* does the literal text parse as T (str::parse::<T>)?  hex / suffixed never do;
\* a float literal does for a float type only; an integer literal does for a float type
LitParses(sp, a) ==
  CASE a.k = "lit"    -> Fits(sp.ty, IF sp.neg THEN -a.v ELSE a.v)
    [] a.k = "fltlit" -> sp.ty = "f64"
    [] OTHER          -> FALSE
IsLitTok(a) == a.k \in {"lit", "hexlit", "suflit", "fltlit"}

\* OPERATIONAL.  Result: [st, v] with st = "value" (literal), "expr" (parsed as expression), "reject"
OpParse(sp) ==
  IF IsLitTok(sp.a1)
  THEN IF LitParses(sp, sp.a1)
       THEN \* literal consumed and converted; anything left before `,` is a syntax error
            (IF sp.op = "" THEN [st |-> "value", v |-> IF sp.neg THEN -sp.a1.v ELSE sp.a1.v] ELSE [st |-> "reject", v |-> 0])
       ELSE \* conversion failed: the `-` and the literal are consumed; an expression is parsed from what is left
            (IF sp.op = "" THEN [st |-> "reject", v |-> 0]                       \* nothing left: "expected expression"
             ELSE IF sp.op = "-" THEN [st |-> "expr", v |-> -sp.a2.v]              \* `- 100` is a complete expression
             ELSE IF sp.op = "&" THEN [st |-> "reject", v |-> 0]                   \* `& M` is a reference: type error in the comparison
             ELSE [st |-> "reject", v |-> 0])                                      \* `* K`, `<< 3`, `+ 1`: not an expression / deref error
  ELSE \* no literal follows: Lit parse fails, but a leading `-` is ALREADY consumed
       [st |-> "expr", v |-> IF sp.op = "" THEN sp.a1.v ELSE Apply(sp.op, sp.a1.v, sp.a2.v)]

Accepted(sp) == OpParse(sp).st # "reject"

\* C02 on the model: an accepted spelling is enforced with the value it denotes
FaithfulBound(sp) == Accepted(sp) => OpParse(sp).v = Denote(sp)

=============================================================================

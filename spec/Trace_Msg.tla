----------------------------- MODULE Trace_Msg -----------------------------
(***************************************************************************)
(* Trace validation for C16.  One event per error variant of a declaration *)
(* with a single bound validator:                                          *)
(*   [d, fam, kind, rel, names_type, names_bound, embeds, cells]           *)
(* rel is the relation the harness read off the message text with a fixed  *)
(* English phrase table ("?" when no phrase was recognised: inconclusive,  *)
(* never a violation - a rewording must not alarm); cells is a sequence of *)
(* [cell, accepted]: the real constructor's verdict below / at / above the *)
(* bound.  The step never blocks; untruthful messages are reported as BAD. *)
(***************************************************************************)
EXTENDS NutypeMsg, Json, IOUtils, TLCExt

Rec == ndJsonDeserialize(IOEnv.TRACE)

VARIABLES l, nbad, ninc
tvars == <<l, nbad, ninc>>

TraceInit == l = 1 /\ nbad = 0 /\ ninc = 0

\* the stated relation, read literally, is satisfied by exactly the accepted cells
CellsOK(e) == \A j \in DOMAIN e.cells : Holds(e.rel, e.cells[j].cell) <=> e.cells[j].accepted

\* the constructor itself accepts exactly the cells the declared rule admits (sanity of the probe)
ProbeOK(e) == \A j \in DOMAIN e.cells : e.cells[j].accepted <=> Accepts(e.kind, e.cells[j].cell)

Step ==
  /\ l <= Len(Rec)
  /\ LET e == Rec[l]
         inconclusive == e.rel = "?"
         bad == ~inconclusive /\ ~(CellsOK(e) /\ e.names_type /\ e.names_bound /\ \A j \in DOMAIN e.embeds : e.embeds[j])
     IN /\ (bad => PrintT(<<"BAD", l, 1, ToJson([d |-> e.d, kind |-> e.kind, rel |-> e.rel,
                                   cells_ok |-> CellsOK(e), probe_ok |-> ProbeOK(e),
                                   names_type |-> e.names_type, names_bound |-> e.names_bound, embeds |-> e.embeds])>>))
        /\ nbad' = nbad + (IF bad THEN 1 ELSE 0)
        /\ ninc' = ninc + (IF inconclusive THEN 1 ELSE 0)
  /\ l' = l + 1

TraceSpec == TraceInit /\ [][Step]_tvars

TraceConsumed ==
  IF TLCGet("stats").diameter - 1 = Len(Rec) THEN TRUE
  ELSE PrintT(<<"UNCONSUMED", TLCGet("stats").diameter - 1, Len(Rec)>>) /\ FALSE

Report == (l = Len(Rec) + 1) =>
  PrintT(<<"SUMMARY", ToJson([events |-> Len(Rec), pairs |-> Len(Rec), bad |-> nbad, drift |-> 0, inconclusive |-> ninc])>>)
=============================================================================

import sys, os, random, json
sys.path.insert(0, "/verif/harness/py")
from vh import value_layer as VL, checks_value as CV
from vh.common import Verdict, Timer, seed
t = Timer()
r, adecls = VL.mc_decls("MC_ValueFloat", "MC_ValueFloat_quick.cfg", "mc_value_float")
print("mc", r.distinct, len(adecls), t.s())
rng = random.Random(seed())
sample = CV.sample_decls(adecls, 100, rng)
decls = CV.instantiate_slice("float", sample, rng, "f")
obs, rej, alive = CV.build_and_run("t_float", decls, lambda d: CV.rows_direct(d, rng, 200), ["serde"], ["serde"], nshards=4)
print("built", len(alive), "rejected", len(rej), t.s())
for k, v in list(rej.items())[:5]: print(k, v[:2])
v = Verdict("C01")
stats = {}
s = CV.judge_trace("C01", v, "t_float", decls, obs, stats)
print(s, stats, t.s())
print(len(v.violations), v.drift, v.notes[:3])
for rec, p in v.violations[:8]: print(rec["summary"])

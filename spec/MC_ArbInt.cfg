SPECIFICATION ASpec
CONSTANTS
  Tier = "quick"
  Prim <- APrim
INVARIANTS
  StepFormAgrees
  TotalAndValid
  CoversValidSet
  EmitDecl
CHECK_DEADLOCK FALSE

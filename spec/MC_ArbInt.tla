------------------------------ MODULE MC_ArbInt ------------------------------
(***************************************************************************)
(* The integer generator as a state machine on the concrete 8-bit types:   *)
(*   Start -> Boundary* (one per validator) -> Draw (int_in_range) ->      *)
(*   Construct (try_new(..).expect) -> done                                *)
(* over every declaration of the slice and every byte string the range     *)
(* consumes (0 or 1 byte for an 8-bit type, plus longer inputs to show     *)
(* that the rest is ignored).                                              *)
(***************************************************************************)
EXTENDS NutypeArb, Json, SequencesExt

CONSTANTS Tier

TMin(ty) == IF ty = "i8" THEN -128 ELSE 0
TMax(ty) == IF ty = "i8" THEN 127 ELSE 255
Dom(ty) == TMin(ty)..TMax(ty)

Rule(k, b, sp, p) == [k |-> k, b |-> b, fn |-> "", p |-> p, sp |-> sp]
Landmarks(ty) ==
  IF Tier = "quick" THEN (IF ty = "i8" THEN {-128, -1, 5, 127} ELSE {0, 5, 255})
  ELSE (IF ty = "i8" THEN {-128, -100, -1, 0, 5, 126, 127} ELSE {0, 1, 5, 200, 254, 255})

\* literal and constant spellings at every landmark; operator spellings with small operands
BoundSpellings(ty, k) ==
  {Rule(k, b, "lit", <<>>) : b \in Landmarks(ty)} \cup {Rule(k, b, "expr", <<>>) : b \in {5, TMin(ty), TMax(ty)}}
  \cup {Rule(k, 8, "shl", <<1, 3>>), Rule(k, 12, "and", <<13, 14>>), Rule(k, 6, "plus", <<5, 1>>)}

Lowers(ty) == UNION {BoundSpellings(ty, k) : k \in {"greater", "greater_or_equal"}}
Uppers(ty) == UNION {BoundSpellings(ty, k) : k \in {"less", "less_or_equal"}}

San(fn, p) == [k |-> "with", fn |-> fn, p |-> p]
Sans(ty) == {<<>>, <<San("to_k", <<0, 5>>)>>, <<San("clamp", <<IF ty = "i8" THEN -5 ELSE 3, 10>>)>>}
\* a sanitizer that moves EVERY candidate of a narrow range: with bounds [10, 10] the only candidate 10 is doubled out of
\* the range although 10 itself is obtainable (from 5); with [4, 10] some candidates are
Doubling(ty) == <<San("dbl_sat", <<TMin(ty), TMax(ty)>>)>>
NarrowPairs == {{Rule("greater_or_equal", 10, "lit", <<>>), Rule("less_or_equal", 10, "lit", <<>>)},
                {Rule("greater_or_equal", 4, "lit", <<>>), Rule("less_or_equal", 10, "lit", <<>>)},
                {Rule("greater", 9, "lit", <<>>), Rule("less", 11, "expr", <<>>)}}

Traits == <<"Debug", "Clone", "Copy", "PartialEq", "Arbitrary">>
Decl(ty, san, vmode, val) ==
  [fam |-> "int", ty |-> ty, san |-> san, vmode |-> vmode, val |-> val, traits |-> Traits, dflt |-> <<>>]

\* non-empty valid interval (the precondition of C09/C14) for pairs
NonEmpty(ty, S) == \E x \in Dom(ty) : \A r \in S : Sat("int", r, x, CodeNanPolicy)

Pairs(ty) == {{l, u} : l \in {r \in Lowers(ty) : r.sp \in {"lit", "shl", "plus"}}, u \in {r \in Uppers(ty) : r.sp \in {"lit", "and", "expr"}}}
Singles(ty) == {{r} : r \in Lowers(ty) \cup Uppers(ty)}

DeclSpace ==
  UNION {
    UNION {{Decl(ty, <<>>, "std", val) : val \in Perms(S)} : S \in {T \in Pairs(ty) \cup Singles(ty) : NonEmpty(ty, T)}}
    \cup {dd \in UNION {{Decl(ty, san, "std", val) : val \in Perms(S), san \in Sans(ty)} : S \in {T \in Singles(ty) : NonEmpty(ty, T) /\ \A r \in T : r.sp = "lit"}} :
            Obtainable(dd, Dom(ty)) # {}}        \* precondition of C09: some value is obtainable (after sanitisation)
    \cup {dd \in UNION {{Decl(ty, Doubling(ty), "std", val) : val \in Perms(S)} : S \in NarrowPairs} : Obtainable(dd, Dom(ty)) # {}}
    \cup {Decl(ty, san, "none", <<>>) : san \in Sans(ty)}
  : ty \in {"i8", "u8"}}

DeclSeqA == SetToSeq(DeclSpace)

ByteStrings == {<<>>} \cup {<<b>> : b \in 0..255} \cup {<<b, c>> : b \in {0, 1, 127, 128, 255}, c \in {0, 255}}

VARIABLES di, bytes, pc, i, lo, hi, out
avars == <<di, bytes, pc, i, lo, hi, out>>
D == di       \* the declaration itself is the state component (chosen from DeclSpace by Init)

AInit == /\ di \in DeclSpace /\ bytes = <<>>
         /\ pc = "start" /\ i = 1 /\ lo = 0 /\ hi = 0 /\ out = NoneOut

\* the fuzzer hands a byte string to `arbitrary`
Start(bs) ==
  /\ pc = "start" /\ bytes' = bs /\ pc' = "boundary"
  /\ lo' = TMin(D.ty) /\ hi' = TMax(D.ty)
  /\ UNCHANGED <<di, i, out>>

\* one iteration of `for validator in validators`
BoundaryStep ==
  /\ pc = "boundary"
  /\ IF D.vmode = "none" \/ i > Len(D.val)
     THEN pc' = "draw" /\ UNCHANGED <<i, lo, hi>>
     ELSE LET r == D.val[i] IN
          /\ i' = i + 1 /\ pc' = pc
          /\ lo' = (CASE r.k = "greater" -> Spliced(r, 1) [] r.k = "greater_or_equal" -> r.b [] OTHER -> lo)
          /\ hi' = (CASE r.k = "less" -> Spliced(r, -1) [] r.k = "less_or_equal" -> r.b [] OTHER -> hi)
  /\ UNCHANGED <<di, bytes, out>>

\* u.int_in_range(lo..=hi), then the constructor with .expect()
DrawAndConstruct ==
  /\ pc = "draw"
  /\ LET drawn == IntInRange(1, lo, hi, bytes) IN
     out' = IF drawn.k = "panic" \/ ~(drawn.v \in Dom(D.ty)) THEN PanicOut
            ELSE LET made == OpCtor(D, drawn.v, <<>>) IN
                 IF IsOk(made) THEN made ELSE IF D.san # <<>> THEN ArbErrOut ELSE PanicOut
  /\ pc' = "done"
  /\ UNCHANGED <<di, bytes, i, lo, hi>>

ASpec == AInit /\ [][(\E bs \in ByteStrings : Start(bs)) \/ BoundaryStep \/ DrawAndConstruct]_avars

ADone == pc = "done"

\* candidate defects of the transcription (DESIGN.md section 7, #6 and the sanitizer case found by this model)
\* (the precedence candidate of operator spellings is repaired: fix 2f72c78)
\* (the sanitizer candidate found by this model is repaired too: a rejected draw is an arbitrary::Error)
HasSanitizer(d) == d.san # <<>>
Known(d) == FALSE
\* C14 only: the generator draws a RAW candidate inside the boundaries and sanitises it afterwards; with a custom
\* sanitizer that is not the identity on that range the produced set is a strict subset of the obtainable one
\* (`dbl_sat` with [10, 10]: 10 is obtainable from 5, but the only candidate 10 becomes 20).  Known finding
\* C14-int-sanitizer-subset (DESIGN.md section 15); no panic and no invalid value is excused by it.
KnownSubset(d) == d.vmode = "std" /\ \E j \in DOMAIN d.san : d.san[j].fn = "dbl_sat"

StepFormAgrees == ADone => out = OpArbInt(D, 1, TMin(D.ty), TMax(D.ty), bytes)

\* C09 on the model
TotalAndValid == ADone => (ArbOutcomeOK(D, out, Dom(D.ty)) \/ Known(D))

\* C14 on the model (evaluated once per declaration, on its initial states)
Produced(d) == {OutVal(o) : o \in {p \in {OpArbInt(d, 1, TMin(d.ty), TMax(d.ty), bs) : bs \in ByteStrings} : IsOk(p)}}
CoversValidSet == (pc = "start") => (ArbCovers(D, Produced(D), Dom(D.ty)) \/ Known(D)
                                        \/ (KnownSubset(D) /\ Produced(D) \subseteq Obtainable(D, Dom(D.ty))))

\* the candidates are real: some declaration with an operator spelling really misses or panics
EmitDecl == (pc = "start") =>
  PrintT(<<"DECL", 0, ToJson([d |-> D, known |-> Known(D), subset |-> KnownSubset(D), covers |-> ArbCovers(D, Produced(D), Dom(D.ty)),
                                 panics |-> (\E bs \in ByteStrings : OpArbInt(D, 1, TMin(D.ty), TMax(D.ty), bs).k = "panic")])>>)

APrim(n, x, env) == x
=============================================================================

----------------------------- MODULE MC_ArbFloat -----------------------------
(***************************************************************************)
(* DESIGN model of the float generator (float/gen/traits/arbitrary.rs).    *)
(* The scaling arithmetic is modelled on a small integer line: the lower   *)
(* bound sits at 0, the upper bound at 4; `from0to1` takes the values 0,   *)
(* 1/2, 1; the fixed correction delta is 1 when it survives at the bound's *)
(* magnitude and 0 when it is absorbed (|b| so large that b + delta = b);  *)
(* the basic value of the one-sided cases is 0, a finite positive number,  *)
(* the largest finite number (which overflows to infinity when a positive  *)
(* bound is added) or - without `finite` - an infinity.                    *)
(*                                                                         *)
(*   Basic -> Scale/Shift -> AdjustLower -> AdjustUpper -> Construct       *)
(*                                                                         *)
(* The adjust steps are transcribed exactly as generated, including WHICH  *)
(* boundary each of them receives.  DECLARATIVE (C09): the result          *)
(* satisfies every validator.  TLC lists the (shape, input class) pairs    *)
(* that end in `try_new` rejecting (= panic); the harness then drives the  *)
(* real generator of concrete declarations of every shape.                 *)
(***************************************************************************)
EXTENDS Integers, Sequences, FiniteSets, TLC, Json

LK == {"none", "greater", "greater_or_equal"}
UK == {"none", "less", "less_or_equal"}
Lo == 0
Up == 4

Num(v) == [k |-> "num", v |-> v]
Inf == [k |-> "inf", v |-> 1000]
NaN == [k |-> "nan", v |-> 0]

Add(x, n) == IF x.k = "num" THEN Num(x.v + n) ELSE x

Shapes == [lk : LK, uk : UK, finite : BOOLEAN, absorbed : BOOLEAN, overflow : BOOLEAN]

\* input classes
TClasses == {0, 2, 4}                              \* from0to1 * range
BasicClasses == {"zero", "pos", "maxfinite", "inf"}

VARIABLES sh, inp, pc, x, out
fvars == <<sh, inp, pc, x, out>>

Delta(s) == IF s.absorbed THEN 0 ELSE 1
TwoSided(s) == s.lk # "none" /\ s.uk # "none"

\* overflow: two-sided: upper - lower = inf; one-sided: the bound is so large that MAX + bound = inf
FInit == /\ sh \in Shapes /\ (sh.overflow => sh.absorbed) /\ ~(sh.overflow /\ sh.lk = "none" /\ sh.uk # "none")
         /\ inp \in (IF TwoSided(sh) THEN {[t |-> t, b |-> "zero"] : t \in TClasses}
                     ELSE {[t |-> 0, b |-> b] : b \in BasicClasses})
         /\ (inp.b = "inf" => ~sh.finite /\ (sh.lk # "none" \/ sh.uk # "none"))   \* NotNaN kind admits infinities, Finite does not
         /\ pc = "scale" /\ x = Num(0) /\ out = "none"

\* x = lower + from0to1 * (upper - lower).abs()        (two-sided)
\* x = |basic| + lower   /   x = -|basic| + upper      (one-sided)
Scale ==
  /\ pc = "scale"
  /\ x' = IF TwoSided(sh)
          THEN (IF sh.overflow THEN (IF inp.t = 0 THEN NaN ELSE Inf)          \* range = inf: 0 * inf = NaN, t * inf = inf
                ELSE Num(Lo + inp.t))
          ELSE IF sh.lk # "none"
               THEN (CASE inp.b = "zero" -> Num(Lo) [] inp.b = "pos" -> Num(Lo + 2)
                       [] inp.b = "maxfinite" -> (IF sh.overflow THEN Inf ELSE Num(Lo + 2))   \* MAX + huge bound overflows; a small bound is absorbed by MAX
                       [] inp.b = "inf" -> Inf)
               ELSE IF sh.uk # "none"
               THEN (CASE inp.b = "zero" -> Num(Up) [] inp.b = "pos" -> Num(Up - 2)
                       [] inp.b = "maxfinite" -> Num(Up - 3) [] inp.b = "inf" -> [k |-> "inf", v |-> -1000])
               ELSE Num(1)
  /\ pc' = "adjust_lower"
  /\ UNCHANGED <<sh, inp, out>>

\* gen_adjust_x_for_lower_boundary(&lower)
AdjustLower ==
  /\ pc = "adjust_lower"
  /\ x' = IF sh.lk = "greater" /\ x.k = "num" /\ x.v <= Lo THEN Add(x, Delta(sh)) ELSE x
  /\ pc' = "adjust_upper"
  /\ UNCHANGED <<sh, inp, out>>

\* gen_adjust_x_for_upper_boundary(&upper)   (two-sided: fix d7795c5; it used to receive the lower boundary)
AdjustUpper ==
  /\ pc = "adjust_upper"
  /\ x' = IF sh.uk = "less" /\ x.k = "num" /\ x.v >= Up THEN Add(x, -Delta(sh)) ELSE x
  /\ pc' = "construct"
  /\ UNCHANGED <<sh, inp, out>>

Valid(s, v) ==
  /\ v.k # "nan" => TRUE
  /\ (s.finite => v.k = "num")
  /\ (v.k = "nan" => TRUE)
  /\ (v.k # "nan" =>
        /\ (s.lk = "greater" => v.v > Lo) /\ (s.lk = "greater_or_equal" => v.v >= Lo)
        /\ (s.uk = "less" => v.v < Up) /\ (s.uk = "less_or_equal" => v.v <= Up))

Construct ==
  /\ pc = "construct"
  /\ out' = IF Valid(sh, x) THEN "ok" ELSE "panic"
  /\ pc' = "done"
  /\ UNCHANGED <<sh, inp, x>>

FSpec == FInit /\ [][Scale \/ AdjustLower \/ AdjustUpper \/ Construct]_fvars

\* candidates (DESIGN.md section 7, #3 and #4)
KnownF(s) ==
  \/ (s.absorbed /\ (s.lk = "greater" \/ s.uk = "less"))       \* #4: fixed delta absorbed at this magnitude
  \/ s.overflow                                                \* #4: upper - lower overflows
  \/ (s.finite /\ s.overflow /\ s.lk # "none" /\ ~TwoSided(s))  \* #4: MAX + huge bound = inf under `finite`

NoPanicF == (pc = "done") => (out = "ok" \/ KnownF(sh))
EmitShape == (pc = "scale" /\ inp.t = 0 /\ inp.b = "zero") => PrintT(<<"SHAPE", 0, ToJson([sh |-> sh, known |-> KnownF(sh)])>>)
EmitPanic == (pc = "done" /\ out = "panic") => PrintT(<<"PANIC", 0, ToJson([sh |-> sh, inp |-> inp])>>)
=============================================================================

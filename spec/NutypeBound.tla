---------------------------- MODULE NutypeBound ----------------------------
(***************************************************************************)
(* C02 for bound spellings: how `validator = <tokens>` is turned into the  *)
(* bound the generated code enforces.                                      *)
(*                                                                         *)
(* A spelling is  [neg, a1, op, a2, ty]:  an optional leading `-`, a first *)
(* atom, and optionally a binary operator with a second atom.  An atom is  *)
(* [k, v]: k = "lit" (number literal; v its magnitude), "hexlit", "suflit" *)
(* (suffixed), "fltlit" (float literal), "const", "paren" (parenthesised   *)
(* literal), "parenc" (parenthesised const), "call".                       *)
(*                                                                         *)
(* DECLARATIVE: Denote(sp) is the value of the whole expression (unary     *)
(* minus binds tightest).                                                  *)
(*                                                                         *)
(* OPERATIONAL: parse_number_or_expr (common/parse/mod.rs) as the code     *)
(* does it:                                                                *)
(*   SpecLiteral : on a FORK: optional `-`, a literal, text parsed as T;   *)
(*                 committed only if `,` or the end follows                *)
(*   FallbackExpr: otherwise the whole bound is parsed as an expression    *)
(*                 from the untouched cursor                               *)
(* (Before fix 7c2a816 the first step ran on the real cursor: the `-` and  *)
(* a literal that did not fit the type stayed consumed, so `-K` was        *)
(* enforced as `K` and `200 - 100` on i8 as `-100`.)                       *)
(***************************************************************************)
EXTENDS Integers, Sequences, FiniteSets, TLC

TMinOf(ty) == CASE ty = "i8" -> -128 [] ty = "i32" -> -100000 [] ty = "u8" -> 0 [] ty = "f64" -> -100000
TMaxOf(ty) == CASE ty = "i8" -> 127 [] ty = "i32" -> 100000 [] ty = "u8" -> 255 [] ty = "f64" -> 100000
Fits(ty, x) == TMinOf(ty) <= x /\ x <= TMaxOf(ty)

NoAtom == [k |-> "none", v |-> 0]

Pow2(n) == IF n = 0 THEN 1 ELSE IF n = 1 THEN 2 ELSE IF n = 2 THEN 4 ELSE IF n = 3 THEN 8 ELSE IF n = 4 THEN 16 ELSE 32
\* bitwise and on the small operands of the catalogue (0..255)
RECURSIVE BitAnd(_, _)
BitAnd(a, b) == IF a = 0 \/ b = 0 THEN 0 ELSE 2 * BitAnd(a \div 2, b \div 2) + (IF a % 2 = 1 /\ b % 2 = 1 THEN 1 ELSE 0)

Apply(op, x, y) ==
  CASE op = "+"  -> x + y
    [] op = "-"  -> x - y
    [] op = "*"  -> x * y
    [] op = "<<" -> x * Pow2(y)
    [] op = "&"  -> BitAnd(x, y)

\* DECLARATIVE: the value the written expression denotes
Denote(sp) ==
  LET first == IF sp.neg THEN -sp.a1.v ELSE sp.a1.v IN
  IF sp.op = "" THEN first ELSE Apply(sp.op, first, sp.a2.v)

\* does the literal text parse as T (str::parse::<T>)?  hex / suffixed never do;
\* a float literal does for a float type only; an integer literal does for a float type
LitParses(sp, a) ==
  CASE a.k = "lit"    -> Fits(sp.ty, IF sp.neg THEN -a.v ELSE a.v)
    [] a.k = "fltlit" -> sp.ty = "f64"
    [] OTHER          -> FALSE
IsLitTok(a) == a.k \in {"lit", "hexlit", "suflit", "fltlit"}

\* does rustc accept the whole spelling as an expression of type T?  (a literal that does not fit the
\* type is a deny-by-default lint error; a float literal is a type error for an integer type; `255 & M`
\* on i8 likewise)
ExprTypechecks(sp) ==
  /\ (sp.a1.k = "lit" => Fits(sp.ty, IF sp.neg /\ sp.op = "" THEN -sp.a1.v ELSE sp.a1.v))
  /\ (sp.a1.k = "fltlit" => sp.ty = "f64")
  /\ (sp.a1.k = "hexlit" => Fits(sp.ty, sp.a1.v))
  /\ (sp.op # "" /\ sp.a2.k = "lit" => Fits(sp.ty, sp.a2.v))

\* OPERATIONAL (after fix 7c2a816).  Result: [st, v] with st = "value" (literal), "expr", "reject".
\* The literal is tried on a FORK and committed only when the bound ends right after it; otherwise the
\* whole spelling is parsed as an expression from the untouched cursor.
OpParse(sp) ==
  IF IsLitTok(sp.a1) /\ LitParses(sp, sp.a1) /\ sp.op = ""
  THEN [st |-> "value", v |-> IF sp.neg THEN -sp.a1.v ELSE sp.a1.v]
  ELSE IF ExprTypechecks(sp) THEN [st |-> "expr", v |-> Denote(sp)] ELSE [st |-> "reject", v |-> 0]

Accepted(sp) == OpParse(sp).st # "reject"

\* C02 on the model: an accepted spelling is enforced with the value it denotes
FaithfulBound(sp) == Accepted(sp) => OpParse(sp).v = Denote(sp)

=============================================================================

//! Structural analysis of recorded `#[nutype]` expansions (the `verif_hooks` trace) for C05.
//! usage: vanalyse <hook trace ndjson> <out ndjson>
//! For every successful expansion it emits one line
//!   {"type": name, "def": .., "attrs": .., "items": [homogeneous item records]}
//! An item record describes one struct / mod / use / impl / fn of the expansion by what it can DO
//! (signature and body), not by its name:
//!   kind, name, vis, unsafe, const, recv, ret, trait, self_ty, ret_self, ret_mut, direct, calls_ctor, has_unsafe, field_vis
use quote::ToTokens;
use serde_json::{json, Value};
use std::io::{BufRead, Write};
use syn::visit::Visit;

fn vis_str(v: &syn::Visibility) -> String {
    match v {
        syn::Visibility::Inherited => "".to_string(),
        other => other.to_token_stream().to_string().replace(' ', ""),
    }
}

fn blank() -> serde_json::Map<String, Value> {
    let mut m = serde_json::Map::new();
    for k in ["kind", "name", "vis", "recv", "ret", "trait", "self_ty", "field_vis", "path"] {
        m.insert(k.to_string(), json!(""));
    }
    for k in ["unsafe", "const", "ret_self", "ret_mut", "direct", "calls_ctor", "has_unsafe", "in_type_impl", "writes_field", "mut_self_param", "non_exhaustive"] {
        m.insert(k.to_string(), json!(false));
    }
    m
}

struct BodyScan<'a> {
    type_name: &'a str,
    direct: bool,
    calls_ctor: bool,
    has_unsafe: bool,
    writes_field: bool,
}

/// `<expr>.0` (the inner field of a tuple struct), possibly parenthesised
fn is_field0(e: &syn::Expr) -> bool {
    match e {
        syn::Expr::Field(f) => matches!(&f.member, syn::Member::Unnamed(i) if i.index == 0),
        syn::Expr::Paren(p) => is_field0(&p.expr),
        syn::Expr::Group(g) => is_field0(&g.expr),
        _ => false,
    }
}
impl<'a, 'ast> Visit<'ast> for BodyScan<'a> {
    fn visit_expr_call(&mut self, c: &'ast syn::ExprCall) {
        if let syn::Expr::Path(p) = &*c.func {
            let segs: Vec<String> = p.path.segments.iter().map(|s| s.ident.to_string()).collect();
            let last = segs.last().cloned().unwrap_or_default();
            // `Name(..)` / `Self(..)`: the tuple constructor itself
            if segs.len() == 1 && (last == self.type_name || last == "Self") {
                self.direct = true;
            }
            if last == "try_new" || last == "new" {
                self.calls_ctor = true;
            }
            if last == "transmute" || last == "from_raw" || last == "zeroed" || last == "read" {
                self.has_unsafe = true;
            }
        }
        syn::visit::visit_expr_call(self, c);
    }
    // the tuple constructor used as a VALUE (`.map(Name)`, `let f = Self;`): as good as calling it
    fn visit_expr_path(&mut self, p: &'ast syn::ExprPath) {
        if p.qself.is_none() && p.path.segments.len() == 1 {
            let id = p.path.segments[0].ident.to_string();
            if id == self.type_name || id == "Self" {
                self.direct = true;
            }
        }
        syn::visit::visit_expr_path(self, p);
    }
    // writes to / mutable borrows of the inner field: `x.0 = ..`, `x.0 += ..`, `&mut x.0`
    fn visit_expr_assign(&mut self, a: &'ast syn::ExprAssign) {
        if is_field0(&a.left) {
            self.writes_field = true;
        }
        syn::visit::visit_expr_assign(self, a);
    }
    fn visit_expr_binary(&mut self, b: &'ast syn::ExprBinary) {
        use syn::BinOp::*;
        if matches!(b.op, AddAssign(_) | SubAssign(_) | MulAssign(_) | DivAssign(_) | RemAssign(_) | BitXorAssign(_) | BitAndAssign(_) | BitOrAssign(_) | ShlAssign(_) | ShrAssign(_)) && is_field0(&b.left) {
            self.writes_field = true;
        }
        syn::visit::visit_expr_binary(self, b);
    }
    fn visit_expr_reference(&mut self, r: &'ast syn::ExprReference) {
        if r.mutability.is_some() && is_field0(&r.expr) {
            self.writes_field = true;
        }
        syn::visit::visit_expr_reference(self, r);
    }
    fn visit_expr_struct(&mut self, s: &'ast syn::ExprStruct) {
        let last = s.path.segments.last().map(|x| x.ident.to_string()).unwrap_or_default();
        if last == self.type_name || last == "Self" {
            self.direct = true;
        }
        syn::visit::visit_expr_struct(self, s);
    }
    fn visit_expr_unsafe(&mut self, u: &'ast syn::ExprUnsafe) {
        self.has_unsafe = true;
        syn::visit::visit_expr_unsafe(self, u);
    }
    fn visit_expr_method_call(&mut self, m: &'ast syn::ExprMethodCall) {
        let n = m.method.to_string();
        if n == "try_new" || n == "new" {
            self.calls_ctor = true;
        }
        syn::visit::visit_expr_method_call(self, m);
    }
}

fn fn_record(sig: &syn::Signature, vis: &syn::Visibility, block: Option<&syn::Block>, type_name: &str, trait_path: &str, self_ty: &str, in_type_impl: bool) -> Value {
    let mut m = blank();
    m.insert("kind".into(), json!("fn"));
    m.insert("name".into(), json!(sig.ident.to_string()));
    m.insert("vis".into(), json!(vis_str(vis)));
    m.insert("unsafe".into(), json!(sig.unsafety.is_some()));
    m.insert("const".into(), json!(sig.constness.is_some()));
    m.insert("trait".into(), json!(trait_path));
    m.insert("self_ty".into(), json!(self_ty));
    m.insert("in_type_impl".into(), json!(in_type_impl));
    let recv = match sig.receiver() {
        None => "none".to_string(),
        Some(r) => {
            if r.reference.is_some() {
                if r.mutability.is_some() { "&mut self".to_string() } else { "&self".to_string() }
            } else if r.colon_token.is_some() {
                r.ty.to_token_stream().to_string().replace(' ', "")
            } else {
                "self".to_string()
            }
        }
    };
    m.insert("recv".into(), json!(recv));
    // a parameter (not the receiver) that is a mutable reference to the newtype: `place: &mut Self`
    let mut_self_param = sig.inputs.iter().any(|a| match a {
        syn::FnArg::Typed(t) => {
            let ty = t.ty.to_token_stream().to_string();
            let toks: Vec<&str> = ty.split(|c: char| !(c.is_alphanumeric() || c == '_' || c == '&')).filter(|x| !x.is_empty()).collect();
            ty.contains("& mut") && toks.iter().any(|x| *x == "Self" || *x == type_name)
        }
        _ => false,
    });
    m.insert("mut_self_param".into(), json!(mut_self_param));
    let ret = match &sig.output {
        syn::ReturnType::Default => "".to_string(),
        syn::ReturnType::Type(_, t) => t.to_token_stream().to_string(),
    };
    let ret_tokens: Vec<&str> = ret.split(|c: char| !(c.is_alphanumeric() || c == '_')).collect();
    let ret_self = ret_tokens.iter().any(|t| *t == "Self" || *t == type_name);
    m.insert("ret_self".into(), json!(ret_self));
    m.insert("ret_mut".into(), json!(ret.contains("& mut") || ret.contains("&mut") || ret.contains("* mut")));
    m.insert("ret".into(), json!(ret));
    if let Some(b) = block {
        let mut scan = BodyScan { type_name, direct: false, calls_ctor: false, has_unsafe: false, writes_field: false };
        scan.visit_block(b);
        m.insert("writes_field".into(), json!(scan.writes_field));
        m.insert("direct".into(), json!(scan.direct));
        m.insert("calls_ctor".into(), json!(scan.calls_ctor));
        m.insert("has_unsafe".into(), json!(scan.has_unsafe));
    }
    Value::Object(m)
}

fn walk(items: &[syn::Item], type_name: &str, out: &mut Vec<Value>, depth: usize) {
    for it in items {
        match it {
            syn::Item::Mod(md) => {
                let mut m = blank();
                m.insert("kind".into(), json!("mod"));
                m.insert("name".into(), json!(md.ident.to_string()));
                m.insert("vis".into(), json!(vis_str(&md.vis)));
                out.push(Value::Object(m));
                if let Some((_, inner)) = &md.content {
                    walk(inner, type_name, out, depth + 1);
                }
            }
            syn::Item::Struct(s) => {
                let mut m = blank();
                m.insert("kind".into(), json!("struct"));
                m.insert("name".into(), json!(s.ident.to_string()));
                m.insert("vis".into(), json!(vis_str(&s.vis)));
                let fv = s.fields.iter().map(|f| vis_str(&f.vis)).filter(|v| !v.is_empty()).collect::<Vec<_>>().join(",");
                m.insert("field_vis".into(), json!(fv));
                out.push(Value::Object(m));
            }
            syn::Item::Enum(e) => {
                let mut m = blank();
                m.insert("kind".into(), json!("enum"));
                m.insert("name".into(), json!(e.ident.to_string()));
                m.insert("vis".into(), json!(vis_str(&e.vis)));
                m.insert("non_exhaustive".into(), json!(e.attrs.iter().any(|a| a.path().is_ident("non_exhaustive"))));
                out.push(Value::Object(m));
            }
            syn::Item::Use(u) => {
                let mut m = blank();
                m.insert("kind".into(), json!("use"));
                m.insert("vis".into(), json!(vis_str(&u.vis)));
                let p = u.tree.to_token_stream().to_string().replace(' ', "");
                m.insert("path".into(), json!(p.clone()));
                m.insert("name".into(), json!(p.rsplit("::").next().unwrap_or("").to_string()));
                m.insert("in_type_impl".into(), json!(depth == 0));
                out.push(Value::Object(m));
            }
            syn::Item::Impl(im) => {
                let trait_path = im.trait_.as_ref().map(|(_, p, _)| p.to_token_stream().to_string().replace(' ', "")).unwrap_or_default();
                let self_ty = im.self_ty.to_token_stream().to_string();
                let self_tokens: Vec<&str> = self_ty.split(|c: char| !(c.is_alphanumeric() || c == '_')).collect();
                let on_type = self_tokens.iter().any(|t| *t == type_name);
                let mut m = blank();
                m.insert("kind".into(), json!("impl"));
                m.insert("trait".into(), json!(trait_path.clone()));
                m.insert("self_ty".into(), json!(self_ty.clone()));
                m.insert("unsafe".into(), json!(im.unsafety.is_some()));
                m.insert("in_type_impl".into(), json!(on_type));
                out.push(Value::Object(m));
                for ii in &im.items {
                    if let syn::ImplItem::Fn(f) = ii {
                        out.push(fn_record(&f.sig, &f.vis, Some(&f.block), type_name, &trait_path, &self_ty, on_type));
                        // nested items inside function bodies (e.g. the serde visitor)
                        let mut nested = Vec::new();
                        for st in &f.block.stmts {
                            if let syn::Stmt::Item(i) = st {
                                nested.push(i.clone());
                            }
                        }
                        walk(&nested, type_name, out, depth + 1);
                    }
                }
            }
            syn::Item::Fn(f) => {
                out.push(fn_record(&f.sig, &f.vis, Some(&f.block), type_name, "", "", false));
            }
            _ => {}
        }
    }
}

fn main() {
    let a: Vec<String> = std::env::args().collect();
    let f = std::fs::File::open(&a[1]).expect("open trace");
    let mut out = std::io::BufWriter::new(std::fs::File::create(&a[2]).expect("create out"));
    for line in std::io::BufReader::new(f).lines() {
        let line = line.expect("read");
        if line.trim().is_empty() {
            continue;
        }
        let v: Value = serde_json::from_str(&line).expect("hook line must be JSON");
        let def = v["def"].as_str().unwrap_or("");
        // type name: the identifier after `struct`
        let toks: Vec<&str> = def.split_whitespace().collect();
        let name = toks.iter().position(|t| *t == "struct").and_then(|i| toks.get(i + 1)).map(|s| s.split(|c: char| !(c.is_alphanumeric() || c == '_')).next().unwrap_or("")).unwrap_or("").to_string();
        if !v["ok"].as_bool().unwrap_or(false) {
            writeln!(out, "{}", json!({"type": name, "ok": false, "def": def, "attrs": v["attrs"], "items": []})).unwrap();
            continue;
        }
        let file: syn::File = match syn::parse_str(v["out"].as_str().unwrap_or("")) {
            Ok(f) => f,
            Err(e) => {
                writeln!(out, "{}", json!({"type": name, "ok": false, "parse_error": e.to_string(), "def": def, "attrs": v["attrs"], "items": []})).unwrap();
                continue;
            }
        };
        let mut items = Vec::new();
        walk(&file.items, &name, &mut items, 0);
        writeln!(out, "{}", json!({"type": name, "ok": true, "def": def, "attrs": v["attrs"], "items": items})).unwrap();
    }
}

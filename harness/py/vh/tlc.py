"""Running TLC: model checking runs (with row extraction) and trace validation."""
import json
import os
import re
import shutil

from .common import SPEC, WORK, ToolError, ensure_dir, sh, log, Timer

TLC_JAVA_TRACE = "-Xss1g -Dtlc2.tool.queue.IStateQueue=StateDeque"


def _parse_tuple(line):
    """Parse a PrintT'ed TLA+ tuple of strings and integers: <<"TAG", 3, "json...">>."""
    assert line.startswith("<<") and line.endswith(">>")
    body = line[2:-2]
    out, i, n = [], 0, len(body)
    while i < n:
        c = body[i]
        if c in " ,":
            i += 1
        elif c == '"':
            j = i + 1
            buf = []
            while body[j] != '"':
                if body[j] == "\\":
                    nxt = body[j + 1]
                    buf.append({"n": "\n", "t": "\t", "r": "\r", "f": "\f"}.get(nxt, nxt))
                    j += 2
                else:
                    buf.append(body[j])
                    j += 1
            out.append("".join(buf))
            i = j + 1
        else:
            j = i
            while j < n and body[j] not in ",":
                j += 1
            tok = body[i:j].strip()
            try:
                out.append(int(tok))
            except ValueError:
                out.append(tok)
            i = j
    return out


class TlcResult:
    def __init__(self):
        self.rows = {}          # tag -> list of parsed tuples (without tag)
        self.generated = 0
        self.distinct = 0
        self.depth = 0
        self.ok = False
        self.error = None
        self.stdout = ""
        self.wall = 0.0
        self.coverage = {}

    def tag(self, t):
        return self.rows.get(t, [])


_ROW = re.compile(r'^<<"([A-Z_]+)", ')


def run_tlc(module, cfg, name, workers=16, env=None, timeout=3600, java_opts=None, extra=None,
            allow_violation=False, heap=None):
    """Run TLC on spec/<module>.tla with spec/<cfg>. Returns TlcResult."""
    meta = ensure_dir(os.path.join(WORK, "tlc", name))
    states = os.path.join(meta, "states")
    out_path = os.path.join(meta, "tlc.out")
    e = dict(env or {})
    jo = java_opts or ""
    if heap:
        jo += " -Xmx%s" % heap
    if jo.strip():
        e["JAVA_TOOL_OPTIONS"] = jo.strip()
    cmd = ["timeout", str(timeout), "tlc", "-workers", str(workers), "-metadir", states, "-cleanup",
           "-noGenerateSpecTE", "-config", os.path.join(SPEC, cfg)]
    if extra:
        cmd += extra
    cmd.append(os.path.join(SPEC, module + ".tla"))
    t = Timer()
    # A model-checking run depends on the specification only (not on /repo): its output is cached in the scratch
    # directory, keyed by the content of every module, the configuration and the options. A fresh copy has no cache.
    cache_path = None
    if not env and os.environ.get("VERIF_TLC_CACHE", "1") != "0":
        import glob
        import hashlib
        h = hashlib.sha256()
        for f_ in sorted(glob.glob(os.path.join(SPEC, "*.tla"))) + [os.path.join(SPEC, cfg)]:
            h.update(f_.encode())
            h.update(open(f_, "rb").read())
        h.update(json.dumps([module, cfg, extra, jo]).encode())
        cdir = ensure_dir(os.environ.get("VERIF_TLC_CACHE_DIR") or os.path.join(WORK, "tlc_cache"))
        cache_path = os.path.join(cdir, h.hexdigest()[:32] + ".out")

    class _P:
        returncode = 0
        stdout = ""
    cached = False
    if cache_path and os.path.exists(cache_path):
        p = _P()
        p.stdout = open(cache_path).read()
        cached = True
    else:
        p = sh(cmd, cwd=meta, env=e)
    r = TlcResult()
    r.wall = t.s()
    r.stdout = p.stdout or ""
    with open(out_path, "w") as f:
        f.write(r.stdout)
    shutil.rmtree(states, ignore_errors=True)
    if cache_path and not cached and p.returncode == 0 and "Model checking completed. No error has been found." in r.stdout:
        tmp = cache_path + ".%d.tmp" % os.getpid()
        with open(tmp, "w") as f:
            f.write(r.stdout)
        os.replace(tmp, cache_path)
    for line in r.stdout.splitlines():
        m = _ROW.match(line)
        if m:
            try:
                tup = _parse_tuple(line.strip())
            except Exception as ex:  # pragma: no cover
                raise ToolError("cannot parse TLC row: %r (%s)" % (line[:200], ex))
            r.rows.setdefault(tup[0], []).append(tup[1:])
            continue
        m = re.match(r"^(\d+) states generated, (\d+) distinct states found", line)
        if m:
            r.generated, r.distinct = int(m.group(1)), int(m.group(2))
        m = re.match(r"^The depth of the complete state graph search is (\d+)", line)
        if m:
            r.depth = int(m.group(1))
    if p.returncode == 124:
        raise ToolError("TLC timed out after %ss on %s/%s" % (timeout, module, cfg))
    if "Model checking completed. No error has been found." in r.stdout:
        r.ok = True
    else:
        m = re.search(r"^Error: (.*)$", r.stdout, re.M)
        r.error = m.group(1) if m else "TLC exit %s" % p.returncode
        if not allow_violation:
            tail = "\n".join(l for l in r.stdout.splitlines() if not _ROW.match(l))[-3000:]
            raise ToolError("TLC failed on %s/%s: %s\n%s" % (module, cfg, r.error, tail))
    log("  tlc %s/%s: %d distinct states, %.1fs%s%s" % (module, cfg, r.distinct, r.wall, " (cached output of an identical run)" if cached else "",
                                                    "" if r.ok else " ERROR " + str(r.error)))
    return r


def json_rows(res, tag):
    """rows <<TAG, ints.., "json">> -> list of (ints.., obj)."""
    out = []
    for tup in res.tag(tag):
        out.append(tuple(tup[:-1]) + (json.loads(tup[-1]),))
    return out


def validate_trace(module, cfg, name, trace_path, decls_path, env=None, timeout=3600):
    """Run a Trace_* spec over a recorded trace. Returns (summary dict, bad list, drift list, TlcResult)."""
    e = {"TRACE": trace_path, "DECLS": decls_path}
    if env:
        e.update(env)
    r = run_tlc(module, cfg, name, workers=1, env=e, timeout=timeout, java_opts=TLC_JAVA_TRACE, heap="8g")
    summ = json_rows(r, "SUMMARY")
    if not summ:
        raise ToolError("trace validation produced no SUMMARY (%s): %s" % (name, r.stdout[-2000:]))
    bad = [(a, b, obj) for (a, b, obj) in json_rows(r, "BAD")]
    drift = [(a, b, obj) for (a, b, obj) in json_rows(r, "DRIFT")]
    return summ[-1][-1], bad, drift, r


def validate_trace_chunks(module, cfg, name, events, table, nchunks=8, env=None, timeout=3600):
    """Split the events into chunks (whole declarations stay together is not required: every
    event is self-contained given the declaration table), validate them in parallel TLC
    processes, and merge. Returns (summary, bad, drift, distinct_states) where bad/drift
    items are (global event index (0-based), pair index (1-based), obj)."""
    from concurrent.futures import ThreadPoolExecutor
    n = max(1, min(nchunks, len(events)))
    # keep events of one declaration in one chunk so that the inferred NaN policy sees them in order
    order = {}
    for gi, e in enumerate(events):
        order.setdefault(e["d"], []).append(gi)
    chunks = [[] for _ in range(n)]
    sizes = [0] * n
    for did, gis in sorted(order.items(), key=lambda kv: -sum(len(events[g]["ins"]) for g in kv[1])):
        k = sizes.index(min(sizes))
        chunks[k].extend(gis)
        sizes[k] += sum(len(events[g]["ins"]) for g in gis)
    chunks = [c for c in chunks if c]
    tdir = ensure_dir(os.path.join(WORK, "trace", name))
    dp = os.path.join(tdir, "decls.json")
    with open(dp, "w") as f:
        json.dump(table, f)

    def one(ci):
        tp = os.path.join(tdir, "trace_%d.ndjson" % ci)
        with open(tp, "w") as f:
            for gi in chunks[ci]:
                f.write(json.dumps(events[gi]) + "\n")
        return validate_trace(module, cfg, "%s_c%d" % (name, ci), tp, dp, env=env, timeout=timeout)

    with ThreadPoolExecutor(max_workers=len(chunks)) as ex:
        results = list(ex.map(one, range(len(chunks))))
    summary = {"events": 0, "pairs": 0, "bad": 0, "drift": 0, "pol": {}}
    bad, drift, states = [], [], 0
    for ci, (summ, b, d, r) in enumerate(results):
        for k in ("events", "pairs", "bad", "drift"):
            summary[k] += summ[k]
        for kind, v in summ["pol"].items():
            prev = summary["pol"].get(kind, "?")
            if prev == "?" or prev == v:
                summary["pol"][kind] = v if v != "?" else prev
            elif v != "?":
                summary["pol"][kind] = "CONFLICT"
        states += r.distinct
        bad.extend((chunks[ci][l - 1], i, obj) for (l, i, obj) in b)
        drift.extend((chunks[ci][l - 1], i, obj) for (l, i, obj) in d)
    return summary, bad, drift, states

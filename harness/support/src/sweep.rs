//! Exhaustive sweeps with aggregation: call `f` on EVERY value of a domain, classify the input by its
//! cell relative to a sorted landmark list (independent comparison, no knowledge of the declaration)
//! and the outcome by its class (accepted unchanged / accepted changed / rejected with variant i / panic),
//! and keep per (cell, class) a count and the first and last witness.  The harness turns every witness
//! into an ordinary (input, outcome) pair that TLC validates; a cell in which the code does not behave
//! uniformly simply shows up with two classes, i.e. with a witness TLC rejects.
use crate::Enc;
use serde_json::{json, Value};
use std::panic::{catch_unwind, AssertUnwindSafe};

pub const MAX_CELLS: usize = 96;
pub const CLASSES: usize = 12; // 0 ok_same, 1 ok_changed, 2.. err variant (index + 2), 11 panic

#[derive(Clone)]
struct Slot<T: Copy> {
    count: u64,
    first: Option<(T, Option<T>)>,
    last: Option<(T, Option<T>)>,
}

pub struct Agg<T: Copy> {
    slots: Vec<Slot<T>>,
}
impl<T: Copy + Enc> Agg<T> {
    pub fn new() -> Self {
        Agg { slots: vec![Slot { count: 0, first: None, last: None }; MAX_CELLS * CLASSES] }
    }
    #[inline]
    pub fn add(&mut self, cell: usize, class: usize, inp: T, out: Option<T>) {
        let s = &mut self.slots[cell.min(MAX_CELLS - 1) * CLASSES + class.min(CLASSES - 1)];
        s.count += 1;
        if s.first.is_none() {
            s.first = Some((inp, out));
        }
        s.last = Some((inp, out));
    }
    pub fn merge(&mut self, other: &Agg<T>) {
        for (a, b) in self.slots.iter_mut().zip(other.slots.iter()) {
            if b.count == 0 {
                continue;
            }
            a.count += b.count;
            if a.first.is_none() {
                a.first = b.first;
            }
            a.last = b.last;
        }
    }
    /// witnesses as [[input, class, output?], ...] plus the total number of calls
    pub fn report(&self, variant_names: &[String]) -> Value {
        let mut pairs = Vec::new();
        let mut total = 0u64;
        let mut cells = 0u64;
        for (i, s) in self.slots.iter().enumerate() {
            if s.count == 0 {
                continue;
            }
            total += s.count;
            cells += 1;
            let class = i % CLASSES;
            for w in [s.first, s.last].iter().flatten() {
                let out = match class {
                    0 | 1 => json!({"k": "ok", "v": w.1.map(|v| v.enc()).unwrap_or(Value::Null)}),
                    11 => json!({"k": "panic", "m": "panic during sweep"}),
                    c => json!({"k": "err", "e": variant_names.get(c - 2).cloned().unwrap_or_else(|| "?".to_string())}),
                };
                pairs.push(json!([w.0.enc(), out, {"count": s.count, "cell": i / CLASSES}]));
            }
        }
        json!({"k": "multi", "pairs": pairs, "calls": total, "cell_classes": cells})
    }
}

/// total-order key of an f32 pattern for cell classification (-0.0 and +0.0 merged); NaN -> None
#[inline]
fn fkey(x: f32) -> Option<i64> {
    if x.is_nan() {
        return None;
    }
    let b = x.to_bits();
    let mag = (b & 0x7fff_ffff) as i64;
    Some(if b >> 31 == 1 { -mag } else { mag })
}

/// cell of x among sorted landmark keys: 2*i for "below marks[i]", 2*i+1 for "equal marks[i]", last for above all; NaN: MAX_CELLS-2
#[inline]
fn cell_of(keys: &[i64], k: Option<i64>) -> usize {
    match k {
        None => MAX_CELLS - 2,
        Some(k) => {
            let mut i = 0;
            while i < keys.len() && keys[i] < k {
                i += 1;
            }
            if i < keys.len() && keys[i] == k { 2 * i + 1 } else { 2 * i }
        }
    }
}

/// every f32 bit pattern in [from, to) on `threads` threads
pub fn sweep_f32<F>(marks: &[f32], from: u64, to: u64, threads: usize, variant_names: &[String], f: F) -> Value
where
    F: Fn(f32) -> Result<f32, usize> + Sync,
{
    let mut keys: Vec<i64> = marks.iter().filter_map(|m| fkey(*m)).collect();
    keys.sort();
    keys.dedup();
    let keys = &keys;
    let f = &f;
    let chunk = (to - from + threads as u64 - 1) / threads as u64;
    let parts: Vec<Agg<f32>> = std::thread::scope(|s| {
        let hs: Vec<_> = (0..threads as u64)
            .map(|t| {
                s.spawn(move || {
                    let mut agg: Agg<f32> = Agg::new();
                    let lo = from + t * chunk;
                    let hi = (lo + chunk).min(to);
                    let mut b = lo;
                    while b < hi {
                        let x = f32::from_bits(b as u32);
                        let cell = cell_of(keys, fkey(x));
                        match catch_unwind(AssertUnwindSafe(|| f(x))) {
                            Ok(Ok(v)) => agg.add(cell, if v.to_bits() == x.to_bits() { 0 } else { 1 }, x, Some(v)),
                            Ok(Err(i)) => agg.add(cell, 2 + i, x, None),
                            Err(_) => agg.add(cell, 11, x, None),
                        }
                        b += 1;
                    }
                    agg
                })
            })
            .collect();
        hs.into_iter().map(|h| h.join().unwrap()).collect()
    });
    let mut all: Agg<f32> = Agg::new();
    for p in &parts {
        all.merge(p);
    }
    all.report(variant_names)
}

/// every value of a 16-bit (or smaller) integer type, given as the full list of values
pub fn sweep_ints<T, F>(marks: &[T], values: impl Iterator<Item = T>, variant_names: &[String], f: F) -> Value
where
    T: Copy + Ord + Enc,
    F: Fn(T) -> Result<T, usize>,
{
    let mut ms: Vec<T> = marks.to_vec();
    ms.sort();
    ms.dedup();
    let mut agg: Agg<T> = Agg::new();
    for x in values {
        let mut i = 0;
        while i < ms.len() && ms[i] < x {
            i += 1;
        }
        let cell = if i < ms.len() && ms[i] == x { 2 * i + 1 } else { 2 * i };
        match catch_unwind(AssertUnwindSafe(|| f(x))) {
            Ok(Ok(v)) => agg.add(cell, if v == x { 0 } else { 1 }, x, Some(v)),
            Ok(Err(i)) => agg.add(cell, 2 + i, x, None),
            Err(_) => agg.add(cell, 11, x, None),
        }
    }
    agg.report(variant_names)
}

---------------------------- MODULE MC_ValueStr ----------------------------
(***************************************************************************)
(* Bounded exhaustive exploration of the run-time layer for the String     *)
(* family.  Strings are sequences over an alphabet of character classes    *)
(* (Sigma in StrEnv.tla): ASCII space, U+2003 (non-ASCII White_Space),     *)
(* a, A, U+00DF (upper-cases to two chars), U+0130 (lower-cases to two     *)
(* chars), U+00E9 (two bytes, one char), U+0301 (combining), 1, NUL.       *)
(* std's primitives are per-character on this alphabet (measured into      *)
(* StrEnv.tla and re-verified against the real std on every run).          *)
(***************************************************************************)
EXTENDS ValueMachine, StrEnv, Json, SequencesExt

CONSTANTS Tier

MaxLen == IF Tier \in {"quick", "c07"} THEN 2 ELSE 3      \* ("c11": 3, so that the truncating custom sanitizer matters)

Strings == UNION {[1..n -> Sigma] : n \in 0..MaxLen}

RECURSIVE DropWs(_)
DropWs(s) == IF s # <<>> /\ Head(s) \in EnvWs THEN DropWs(Tail(s)) ELSE s
TrimS(s) == NReverse(DropWs(NReverse(DropWs(s))))
RECURSIVE MapCat(_, _)
MapCat(tbl, s) == IF s = <<>> THEN <<>> ELSE tbl[Head(s)] \o MapCat(tbl, Tail(s))

MCPrim(n, x, env) ==
  CASE n = "trim"  -> TrimS(x)
    [] n = "lower" -> MapCat(EnvLower, x)
    [] n = "upper" -> MapCat(EnvUpper, x)

\* ---- validators
R(k, b, fn, sp) == [k |-> k, b |-> b, fn |-> fn, p |-> <<>>, sp |-> sp]
NE == R("not_empty", 0, "", "lit")
MinR(b, sp) == R("len_char_min", b, "", sp)
MaxR(b, sp) == R("len_char_max", b, "", sp)
PredA == R("predicate", 0, "has_a", "lit")
ReLower == R("regex", 0, "re_lower", "lit")
ReHasA == R("regex", 0, "re_has_a", "expr")      \* regex given as a path to a static
ReADot == R("regex", 0, "re_a_dot", "lit")       \* "a.": no meta character but the dot

Lens == {1, 2}
AtMostOne(S) == {{}} \cup {{x} : x \in S}

\* len_char_min <= len_char_max for literals; contradicting ones are spelled as expressions - both of them, or only the
\* minimum (the macro compares the two only when both are literals)
MinMaxV(S) ==
  LET mins == {r \in S : r.k = "len_char_min"} maxs == {r \in S : r.k = "len_char_max"} IN
  IF \E a \in mins, b \in maxs : a.b > b.b
  THEN {{IF r.k \in {"len_char_min", "len_char_max"} THEN [r EXCEPT !.sp = "expr"] ELSE r : r \in S},
        {IF r.k = "len_char_min" THEN [r EXCEPT !.sp = "expr"] ELSE r : r \in S}}
  ELSE {S}

RuleSets ==
  UNION {MinMaxV(a \cup b \cup c \cup e \cup f) :
     a \in AtMostOne({NE}), b \in AtMostOne({MinR(n, "lit") : n \in Lens}),
     c \in AtMostOne({MaxR(n, "lit") : n \in Lens}), e \in AtMostOne({PredA}), f \in AtMostOne({ReLower, ReHasA, ReADot})}

MaxRules == IF Tier = "c07" THEN 5 ELSE IF Tier = "quick" THEN 2 ELSE IF Tier = "c11" THEN 1 ELSE 3
ValSeqs == UNION {Perms(S) : S \in {T \in RuleSets : T # {} /\ Cardinality(T) <= MaxRules}}

\* ---- sanitizers: every order of every subset of {trim, lowercase | uppercase, one custom}
San(k, fn) == [k |-> k, fn |-> fn, p |-> <<>>]
\* "c11": the idempotent custom function in every position among the built-ins (C11's precondition is decided by Builtin)
\* (quick: `tag_a` appends an upper-case letter, so it does not commute with trim NOR with a case mapping)
Customs == IF Tier \in {"quick", "c07"} THEN {San("with", "tag_a")}
           ELSE IF Tier = "c11" THEN {San("with", "take2")}
           ELSE {San("with", "bang"), San("with", "tag_a"), San("with", "rev"), San("with", "take2")}
SanSets == {a \cup b \cup c : a \in AtMostOne({San("trim", "")}),
                              b \in AtMostOne({San("lowercase", ""), San("uppercase", "")}),
                              c \in AtMostOne(Customs)}
SanSeqs == UNION {Perms(S) : S \in SanSets}
BuiltinSanSeqs == UNION {Perms(S) : S \in {T \in SanSets : \A s \in T : s.k # "with"}}

Defaults == {<<<<97>>>>}     \* default = "a"

StdTraits == <<"Debug", "Clone", "PartialEq", "Eq", "PartialOrd", "Ord", "Hash",
               "AsRef", "Deref", "Borrow", "Into", "Display", "FromStr", "Default",
               "Serialize", "Deserialize">>

DeclC(conv, san, vmode, val, dflt) ==
  [fam |-> "string", ty |-> "String", san |-> san, vmode |-> vmode, val |-> val,
   traits |-> StdTraits \o (IF vmode = "none" /\ conv = "From" THEN <<"From">> ELSE <<"TryFrom">>),
   dflt |-> dflt]
Decl(san, vmode, val, dflt) == DeclC("From", san, vmode, val, dflt)


CustomVals == {<<[k |-> "custom", b |-> 0, fn |-> "short", p |-> <<>>, sp |-> "lit"]>>}

\* the full sanitizer space with the one- and two-rule validator lists; the
\* built-in sanitizer orders with every validator list
DeclSpace ==
  IF Tier = "c07"    \* C07 slice: every permutation of four and five validators (the full built-in set)
  THEN {Decl(<<San("trim", "")>>, "std", val, dflt) : val \in {v \in ValSeqs : Len(v) >= 4}, dflt \in Defaults}
  ELSE IF Tier = "c11"   \* C11 slice: every sanitizer order (idempotent custom function included) x three validator lists
  THEN {Decl(san, "std", val, dflt) : san \in SanSeqs, val \in {<<NE>>, <<MaxR(2, "lit")>>, <<PredA>>}, dflt \in Defaults}
       \cup {Decl(san, "none", <<>>, dflt) : san \in SanSeqs, dflt \in Defaults}
  ELSE
  {Decl(san, "std", val, dflt) : san \in SanSeqs, val \in {v \in ValSeqs : Len(v) <= 1}, dflt \in Defaults}
  \cup {Decl(san, "std", val, dflt) : san \in BuiltinSanSeqs, val \in ValSeqs, dflt \in Defaults}
  \cup {Decl(san, "none", <<>>, dflt) : san \in SanSeqs, dflt \in Defaults}
  \cup {DeclC("TryFrom", san, "none", <<>>, dflt) : san \in SanSeqs, dflt \in Defaults}
  \cup {Decl(san, "custom", val, dflt) : san \in BuiltinSanSeqs, val \in CustomVals, dflt \in Defaults}

MCDeclSeq == SetToSeq(DeclSpace)

Boundary == {<<>>, <<97>>, <<32>>, <<65, 32>>, <<223>>, <<304>>, <<32, 97>>}

MCInputsOf(d, e) ==
  IF e \in {"try_new", "new"} THEN {In(x) : x \in Strings}
  ELSE IF e = "default" THEN {In(<<>>)}
  ELSE {In(x) : x \in Boundary} \cup (IF e = "deser" THEN {InFail} ELSE {})

MCEpsOf(d) ==
  IF Tier = "c11" THEN {CtorName(d)} ELSE      \* canonicity is a statement about the constructor
  {CtorName(d), "default", "deser", "from_str_s"}
  \cup (IF NInSeq("From", d.traits) THEN {"from", "from_ref"} ELSE {"try_from", "try_from_ref"})

EmitDecl == (pc = "idle") => PrintT(<<"DECL", di, ToJson(D)>>)

\* C11 on the model: with built-in sanitizers only, a stored value is a fixed
\* point of the sanitizer chain and is accepted again (given std's tables)
Canonical ==
  (Done /\ IsOk(out) /\ Builtin(D)) =>
     DeclCtor(D, OutVal(out), MEnv, CodeNanPolicy) = OkOut(OutVal(out))

=============================================================================

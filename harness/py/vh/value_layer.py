"""Run-time layer pipeline: TLC declaration rows -> concrete declarations -> generated crate ->
observations -> projected trace -> TLC trace validation."""
import copy
import json
import os
import random

from .common import WORK, ToolError, ensure_dir, log, seed
from .crate import Crate
from .driver_value import render_module, render_main
from .tlc import run_tlc, json_rows, validate_trace
from .values import (INT_TYPES, CONCRETE_INT, FLOAT_TYPES, IntProjector, FloatProjector,
                     f_enc, f_dec, f_bits, f_from_bits, f_class)
from . import render_value

ORDER_ONLY_SAN = {"clamp", "to_k", "nan_to"}
ORDER_ONLY_PRED = {"ne"}


# ------------------------------------------------------------------ TLC -> abstract declarations

def mc_decls(module, cfg, name, env=None):
    r = run_tlc(module, cfg, name, workers=16, env=env)
    rows = json_rows(r, "DECL")
    decls = [obj for (_i, obj) in sorted(rows, key=lambda t: t[0])]
    if not decls:
        raise ToolError("model checking run %s/%s emitted no declarations" % (module, cfg))
    return r, decls


# ------------------------------------------------------------------ integers

def _lift_int(src_ty, dst_ty):
    slo, shi = INT_TYPES[src_ty]
    dlo, dhi = INT_TYPES[dst_ty]

    def phi(v):
        if v == slo:
            return dlo
        if v == slo + 1 and slo != 0:
            return dlo + 1
        if v == shi:
            return dhi
        if v == shi - 1:
            return dhi - 1
        return v
    return phi


def int_order_only(ad):
    """can this declaration be judged on order-isomorphic ranks instead of concrete values?"""
    if ad["vmode"] == "custom":
        return False
    for s in ad["san"]:
        if s["k"] == "with" and s["fn"] not in ORDER_ONLY_SAN:
            return False
    for r in ad["val"]:
        if r["k"] == "predicate" and r["fn"] not in ORDER_ONLY_PRED:
            return False
    return True


def instantiate_int(ad, ty, did):
    """abstract 8-bit declaration -> concrete declaration at integer type `ty`."""
    phi = _lift_int(ad["ty"], ty)
    d = copy.deepcopy(ad)
    d["id"] = did
    d["src_ty"] = ad["ty"]
    d["ty"] = ty
    for s in d["san"]:
        s["p"] = [phi(v) for v in s["p"]]
    for r in d["val"]:
        r["b"] = phi(r["b"])
        r["p"] = [phi(v) for v in r["p"]]
    d["dflt"] = [phi(v) for v in d["dflt"]]
    d["_phi"] = phi
    return d


def int_landmarks(d):
    lo, hi = INT_TYPES[d["ty"]]
    L = {lo, hi, 0, 1, 5}
    if lo < 0:
        L.add(-1)
    for s in d["san"]:
        L.update(s["p"])
    for r in d["val"]:
        if r["k"] in ("greater", "greater_or_equal", "less", "less_or_equal"):
            L.add(r["b"])
        L.update(r["p"])
    L.update(d["dflt"])
    return {v for v in L if lo <= v <= hi}


def int_inputs(d, rng, nrandom):
    lo, hi = INT_TYPES[d["ty"]]
    slo, shi = INT_TYPES[d["src_ty"]]
    phi = d["_phi"]
    vals = {phi(v) for v in range(slo, shi + 1)}
    for L in int_landmarks(d):
        for k in range(-2, 3):
            vals.add(L + k)
    for _ in range(nrandom):
        vals.add(rng.randint(lo, hi))
    return sorted(v for v in vals if lo <= v <= hi)


# ------------------------------------------------------------------ script / observation handling

def direct_eps(d):
    eps = ["try_new" if d["vmode"] != "none" else "new"]
    t = d["traits"]
    if "TryFrom" in t:
        eps.append("try_from")
        if d["fam"] == "string":
            eps.append("try_from_ref")
    if "From" in t:
        eps.append("from")
        if d["fam"] == "string":
            eps.append("from_ref")
    if d["fam"] == "string" and "FromStr" in t:
        eps.append("from_str_s")
    return eps


def enc_value(d, v):
    if d["fam"] == "int":
        return str(v)
    if d["fam"] == "float":
        return f_enc(d["ty"], v)
    if d["fam"] == "string":
        return list(v)
    if d["fam"] == "any":
        return [str(x) for x in v]
    raise KeyError(d["fam"])


def dec_value(d, j):
    if d["fam"] == "int":
        return int(j)
    if d["fam"] == "float":
        return f_dec(j)[1]
    if d["fam"] == "string":
        return tuple(j)
    if d["fam"] == "any":
        return tuple(int(x) for x in j)
    raise KeyError(d["fam"])


class Projector:
    """concrete values of one declaration -> model values."""

    def __init__(self, d):
        self.d = d
        fam = d["fam"]
        self.p = IntProjector(d["ty"]) if fam == "int" else FloatProjector(d["ty"]) if fam == "float" else None

    def add(self, v):
        if self.p is not None:
            self.p.add(v)

    def freeze(self):
        if self.p is not None:
            self.p.freeze()

    def model(self, v):
        if self.p is not None:
            return self.p.model(v)
        return list(v)

    def model_decl(self):
        d = self.d
        fam = d["fam"]
        m = {"fam": fam, "ty": d["ty"], "vmode": d["vmode"], "traits": list(d["traits"])}
        bounded = ("greater", "greater_or_equal", "less", "less_or_equal")
        m["san"] = [{"k": s["k"], "fn": s["fn"], "p": [self.model(v) for v in s["p"]]} for s in d["san"]]
        vals = []
        for r in d["val"]:
            if fam in ("int", "float"):
                b = self.model(r["b"]) if r["k"] in bounded else self.model(self.zero())
            else:
                b = r["b"]
            vals.append({"k": r["k"], "b": b, "fn": r["fn"], "p": [self.model(v) for v in r["p"]], "sp": r.get("sp", "lit")})
        m["val"] = vals
        m["dflt"] = [self.model(v) for v in d["dflt"]]
        return m

    def zero(self):
        return 0


def collect_values(d, proj, batches):
    """feed every concrete value of the declaration and its observations to the projector."""
    if proj.p is None:
        return
    bounded = ("greater", "greater_or_equal", "less", "less_or_equal")
    proj.add(proj.zero())
    for s in d["san"]:
        for v in s["p"]:
            proj.add(v)
    for r in d["val"]:
        if r["k"] in bounded:
            proj.add(r["b"])
        for v in r["p"]:
            proj.add(v)
    for v in d["dflt"]:
        proj.add(v)
    for b in batches:
        for (inp, out, x) in b["b"]:
            if b["ep"] == "parse":
                inner = x["inner"]
                if inner["ok"]:
                    proj.add(dec_value(d, inner["v"][0]))
            elif b["ep"] not in ("default",):
                proj.add(dec_value(d, inp))
            if out.get("k") == "ok":
                proj.add(dec_value(d, out["v"]))


def model_out(d, proj, out):
    k = out.get("k")
    if k == "ok":
        return {"k": "ok", "v": [proj.model(dec_value(d, out["v"]))], "e": ""}
    if k == "err":
        return {"k": "err", "v": [], "e": out["e"]}
    if k in ("panic", "perr", "derr", "aerr"):
        return {"k": k, "v": [], "e": ""}
    raise ToolError("unexpected outcome from driver: %r" % (out,))


def model_env(x):
    if not x or "env" not in x:
        return []
    return x["env"]


def project(decls_by_id, obs_path):
    """observations -> (model decl table, trace events, index for reporting)."""
    by_decl = {}
    with open(obs_path) as f:
        for line in f:
            if line.strip():
                o = json.loads(line)
                by_decl.setdefault(o["d"], []).append(o)
    table, events, index = {}, [], []
    for did, batches in by_decl.items():
        d = decls_by_id[did]
        proj = Projector(d)
        collect_values(d, proj, batches)
        proj.freeze()
        table[did] = proj.model_decl()
        for b in batches:
            ins, outs, envs, raw = [], [], [], []
            for (inp, out, x) in b["b"]:
                if out.get("k") == "noep":
                    raise ToolError("driver of %s has no entry point %s" % (did, b["ep"]))
                if b["ep"] == "default":
                    ins.append({"ok": True, "v": []})
                elif b["ep"] == "parse":
                    inner = x["inner"]
                    ins.append({"ok": inner["ok"], "v": [proj.model(dec_value(d, inner["v"][0]))] if inner["ok"] else []})
                else:
                    ins.append({"ok": True, "v": [proj.model(dec_value(d, inp))]})
                outs.append(model_out(d, proj, out))
                if d["fam"] == "string":
                    envs.append(model_env(x))
                raw.append((inp, out))
            events.append({"d": did, "ep": b["ep"], "ins": ins, "outs": outs, "envs": envs})
            index.append((did, b["ep"], raw))
    return table, events, index


def write_trace(dirpath, table, events):
    ensure_dir(dirpath)
    tp, dp = os.path.join(dirpath, "trace.ndjson"), os.path.join(dirpath, "decls.json")
    with open(tp, "w") as f:
        for e in events:
            f.write(json.dumps(e) + "\n")
    with open(dp, "w") as f:
        json.dump(table, f)
    return tp, dp

----------------------------- MODULE Trace_Api -----------------------------
(***************************************************************************)
(* Structural trace validation for C05 (binding B3).  The `verif_hooks`    *)
(* hook of nutype_macros records every expansion; a syn-based analyser     *)
(* (harness/analyser) turns the emitted tokens into item records; each     *)
(* event is one declaration: [d, cfg, items].  The step judges the items   *)
(* against the capability rules of NutypeApi (ApiOK) and reports the       *)
(* broken rules.  It never blocks.                                         *)
(***************************************************************************)
EXTENDS NutypeApi, Json, IOUtils, TLCExt

Rec == ndJsonDeserialize(IOEnv.TRACE)

VARIABLES l, nbad
tvars == <<l, nbad>>
TraceInit == l = 1 /\ nbad = 0

Step ==
  /\ l <= Len(Rec)
  /\ LET e == Rec[l]
         broken == Broken(e.cfg, e.items)
     IN /\ (broken # {} => PrintT(<<"BAD", l, 1, ToJson([d |-> e.d, rules |-> {RuleNames[n] : n \in broken}])>>))
        /\ nbad' = nbad + (IF broken # {} THEN 1 ELSE 0)
  /\ l' = l + 1

TraceSpec == TraceInit /\ [][Step]_tvars
TraceConsumed ==
  IF TLCGet("stats").diameter - 1 = Len(Rec) THEN TRUE
  ELSE PrintT(<<"UNCONSUMED", TLCGet("stats").diameter - 1, Len(Rec)>>) /\ FALSE
Report == (l = Len(Rec) + 1) =>
  PrintT(<<"SUMMARY", ToJson([events |-> Len(Rec), pairs |-> Len(Rec), bad |-> nbad, drift |-> 0])>>)
=============================================================================

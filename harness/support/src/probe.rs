//! Generic serde probes: build a document that carries a value at a given
//! position in a given format, and read a type back from the same position.
//! Knows nothing about nutype: the generated driver instantiates it once with
//! a plain serde-derived reference newtype (the differential oracle /
//! environment observation) and once with the nutype newtype.
use serde::de::DeserializeOwned;
use serde::{Deserialize, Serialize};
use serde_json::{json, Value};
use std::collections::BTreeMap;

#[derive(Clone, Debug)]
pub enum Doc {
    Text(String),
    Bytes(Vec<u8>),
}

impl Doc {
    pub fn repr(&self) -> Value {
        match self {
            Doc::Text(s) => json!({"text": s}),
            Doc::Bytes(b) => json!({"hex": b.iter().map(|x| format!("{:02x}", x)).collect::<String>()}),
        }
    }
    pub fn from_repr(v: &Value) -> Doc {
        if let Some(s) = v.get("text").and_then(|x| x.as_str()) {
            Doc::Text(s.to_string())
        } else {
            let h = v["hex"].as_str().expect("doc.hex");
            Doc::Bytes((0..h.len() / 2).map(|i| u8::from_str_radix(&h[2 * i..2 * i + 2], 16).unwrap()).collect())
        }
    }
}

/// A deserializer that presents whatever `D` carries as a ONE-ELEMENT SEQUENCE, whatever the visitor asked for.
pub struct SeqOf<D>(pub D);
struct OneElem<D>(Option<D>);
impl<'de, D: serde::Deserializer<'de>> serde::de::SeqAccess<'de> for OneElem<D> {
    type Error = D::Error;
    fn next_element_seed<S: serde::de::DeserializeSeed<'de>>(&mut self, seed: S) -> Result<Option<S::Value>, D::Error> {
        match self.0.take() {
            Some(d) => seed.deserialize(d).map(Some),
            None => Ok(None),
        }
    }
}
impl<'de, D: serde::Deserializer<'de>> serde::Deserializer<'de> for SeqOf<D> {
    type Error = D::Error;
    fn deserialize_any<V: serde::de::Visitor<'de>>(self, visitor: V) -> Result<V::Value, D::Error> {
        visitor.visit_seq(OneElem(Some(self.0)))
    }
    serde::forward_to_deserialize_any! {
        bool i8 i16 i32 i64 i128 u8 u16 u32 u64 u128 f32 f64 char str string bytes byte_buf option unit unit_struct
        newtype_struct seq tuple tuple_struct map struct enum identifier ignored_any
    }
}

#[derive(Serialize, Deserialize, Debug)]
pub struct Wrap<T> {
    pub a: u8,
    pub f: T,
}

pub fn ser<T: Serialize>(fmt: &str, t: &T) -> Result<Doc, String> {
    match fmt {
        "json" | "json_reader" | "seq_json" => serde_json::to_string(t).map(Doc::Text).map_err(|e| e.to_string()),
        "msgpack_read" => rmp_serde::to_vec(t).map(Doc::Bytes).map_err(|e| e.to_string()),
        "ron" | "ron_value" => ron::to_string(t).map(Doc::Text).map_err(|e| e.to_string()),
        // RON that spells out struct names (`Nt(5)`), as `PrettyConfig::struct_names(true)` writes it
        "ron_named" => ron::ser::to_string_pretty(t, ron::ser::PrettyConfig::new().struct_names(true)).map(Doc::Text).map_err(|e| e.to_string()),
        "msgpack" => rmp_serde::to_vec(t).map(Doc::Bytes).map_err(|e| e.to_string()),
        "msgpack_named" => rmp_serde::to_vec_named(t).map(Doc::Bytes).map_err(|e| e.to_string()),
        _ => Err(format!("unknown format {}", fmt)),
    }
}

pub fn de<T: DeserializeOwned>(fmt: &str, doc: &Doc) -> Result<T, String> {
    match (fmt, doc) {
        ("json", Doc::Text(s)) => serde_json::from_str(s).map_err(|e| e.to_string()),
        ("json_reader", Doc::Text(s)) => serde_json::from_reader(s.as_bytes()).map_err(|e| e.to_string()),
        ("msgpack_read", Doc::Bytes(b)) => rmp_serde::from_read(&b[..]).map_err(|e| e.to_string()),
        ("ron", Doc::Text(s)) | ("ron_named", Doc::Text(s)) => ron::from_str(s).map_err(|e| e.to_string()),
        // routes on which the deserializer does NOT call visit_newtype_struct: a self-describing tree (ron::Value) and a
        // deserializer that presents the payload as a one-element sequence (like serde::de::value::SeqDeserializer)
        ("ron_value", Doc::Text(s)) => ron::from_str::<ron::Value>(s).map_err(|e| e.to_string()).and_then(|v| v.into_rust::<T>().map_err(|e| e.to_string())),
        ("seq_json", Doc::Text(s)) => {
            let mut inner = serde_json::Deserializer::from_str(s);
            T::deserialize(SeqOf(&mut inner)).map_err(|e| e.to_string())
        }
        ("msgpack", Doc::Bytes(b)) | ("msgpack_named", Doc::Bytes(b)) => rmp_serde::from_slice(b).map_err(|e| e.to_string()),
        _ => Err("format/document kind mismatch".to_string()),
    }
}

pub const POSITIONS: [&str; 6] = ["top", "vec", "opt", "field", "mapval", "tuple"];

pub fn ser_at<T: Serialize>(fmt: &str, pos: &str, t: T) -> Result<Doc, String> {
    match pos {
        "top" => ser(fmt, &t),
        "vec" => ser(fmt, &vec![t]),
        "opt" => ser(fmt, &Some(t)),
        "field" => ser(fmt, &Wrap { a: 7, f: t }),
        "mapval" => {
            let mut m = BTreeMap::new();
            m.insert("k".to_string(), t);
            ser(fmt, &m)
        }
        "tuple" => ser(fmt, &(3u8, t)),
        _ => Err(format!("unknown position {}", pos)),
    }
}

pub fn de_at<T: DeserializeOwned>(fmt: &str, pos: &str, doc: &Doc) -> Result<T, String> {
    match pos {
        "top" => de::<T>(fmt, doc),
        "vec" => de::<Vec<T>>(fmt, doc).and_then(|mut v| if v.len() == 1 { Ok(v.pop().unwrap()) } else { Err("probe: expected one element".into()) }),
        "opt" => de::<Option<T>>(fmt, doc).and_then(|o| o.ok_or_else(|| "probe: got None".to_string())),
        "field" => de::<Wrap<T>>(fmt, doc).map(|w| w.f),
        "mapval" => de::<BTreeMap<String, T>>(fmt, doc).and_then(|m| m.into_iter().next().map(|(_, v)| v).ok_or_else(|| "probe: empty map".to_string())),
        "tuple" => de::<(u8, T)>(fmt, doc).map(|p| p.1),
        _ => Err(format!("unknown position {}", pos)),
    }
}

/// map-key position (needs Ord)
pub fn ser_key<T: Serialize + Ord>(fmt: &str, t: T) -> Result<Doc, String> {
    let mut m = BTreeMap::new();
    m.insert(t, 1u8);
    ser(fmt, &m)
}
pub fn de_key<T: DeserializeOwned + Ord>(fmt: &str, doc: &Doc) -> Result<T, String> {
    de::<BTreeMap<T, u8>>(fmt, doc).and_then(|m| m.into_iter().next().map(|(k, _)| k).ok_or_else(|| "probe: empty map".to_string()))
}

/// Which validation variant does a serde error message report?  The generated
/// Deserialize impl renders `"{validation_error} Expected valid {type}"`.
pub fn classify_de_error(msg: &str, variants: &[(String, String)], type_name: &str) -> Value {
    let tail = format!(" Expected valid {}", type_name);
    for (name, text) in variants {
        if msg.contains(&format!("{}{}", text, tail)) {
            return json!({"k": "err", "e": name, "m": msg});
        }
    }
    if msg.contains(&tail) {
        return json!({"k": "err", "e": "?", "m": msg});
    }
    json!({"k": "derr", "m": msg})
}

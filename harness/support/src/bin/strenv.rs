//! Measures std's string primitives on single characters: the environment
//! tables of MC_ValueStr (spec/StrEnv.tla).  args: code points (decimal).
//! Prints JSON {"chars": [...closure...], "ws": [...], "lower": {"cp": [..]}, "upper": {...}}.
use vsupport::serde_json::{json, Map, Value};

fn main() {
    let mut chars: Vec<u32> = std::env::args().skip(1).map(|a| a.parse().expect("code point")).collect();
    let mut i = 0;
    while i < chars.len() {
        let c = char::from_u32(chars[i]).expect("scalar");
        let s = c.to_string();
        for o in s.to_lowercase().chars().chain(s.to_uppercase().chars()) {
            if !chars.contains(&(o as u32)) {
                chars.push(o as u32);
            }
        }
        i += 1;
    }
    chars.sort();
    let mut lower = Map::new();
    let mut upper = Map::new();
    let mut ws = Vec::new();
    for &cp in &chars {
        let c = char::from_u32(cp).unwrap();
        let s = c.to_string();
        lower.insert(cp.to_string(), json!(s.to_lowercase().chars().map(|x| x as u32).collect::<Vec<_>>()));
        upper.insert(cp.to_string(), json!(s.to_uppercase().chars().map(|x| x as u32).collect::<Vec<_>>()));
        // a character is "trimmed" iff trimming the one-character string yields the empty string
        if s.trim().is_empty() {
            ws.push(cp);
        }
    }
    println!("{}", Value::Object({
        let mut m = Map::new();
        m.insert("chars".into(), json!(chars));
        m.insert("ws".into(), json!(ws));
        m.insert("lower".into(), Value::Object(lower));
        m.insert("upper".into(), Value::Object(upper));
        m
    }));
}

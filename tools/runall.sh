#!/bin/bash
# run every registered check (quick tier) and summarise; used for regression runs
HERE="$(cd "$(dirname "$0")/.." && pwd)"
cd $HERE
TIER=${1:-quick}
for C in C01 C02 C03 C04 C05 C06 C07 C08 C09 C10 C11 C12 C13 C14 C15 C16; do
  grep -q "\"$C\"" harness/py/vh/registry.py || continue
  s=$(date +%s)
  ./check $C --tier $TIER > /tmp/runall_$C.log 2>&1
  rc=$?
  e=$(date +%s)
  echo "$C exit=$rc $((e-s))s $(grep -c '^VIOLATION' /tmp/runall_$C.log) violations, $(grep -c '^KNOWN-FINDING' /tmp/runall_$C.log) known, $(grep -c '^MODEL-DRIFT' /tmp/runall_$C.log) drift  $(grep '^TOOL-ERROR' /tmp/runall_$C.log | head -1 | cut -c1-150)"
done

SPECIFICATION Spec
CONSTANTS
  Tier = "c12"
  DeclSeq <- MCDeclSeq
  InputsOf <- MCInputsOf
  EpsOf <- MCEpsOf
  Prim <- MCPrim
  MEnv = 0
INVARIANTS
  MeetsDeclarative
  FunctionFormAgrees
  WrapsSanitized
  FirstViolated
  NeverWrapsInvalid
  PanicOnlyFromInvalidDefault
  FiniteExcludesNonFinite
  EmitDecl
CHECK_DEADLOCK FALSE

SPECIFICATION BSpec
INVARIANTS
  StepFormAgrees
  FaithfulOrKnown
  CandidatesExact
  EmitSp
CHECK_DEADLOCK FALSE

"""Driver code generation (Rust `call` function per declaration, main.rs) for the run-time layer."""
from .render_value import render_decl_only, inner_type, san_closure

PRELUDE = """#![allow(unused, non_snake_case, non_camel_case_types, clippy::all)]
use super::*;
"""

MAIN_HEAD = """#![allow(unused, non_snake_case, non_camel_case_types, clippy::all)]
use vsupport::*;
use vsupport::serde_json::{json, Value};
use nutype::nutype;
use std::convert::TryFrom;
use std::str::FromStr;
"""


def has(d, t):
    return t in d["traits"]


def ntc(d):
    """the concrete instantiation of the newtype used by the driver (a type alias in the module)."""
    return "NtC"


def render_call(d):
    fam = d["fam"]
    inner = inner_type(d).replace("T", "i32") if d.get("gen_decl") else inner_type(d)
    T = ntc(d)
    validated = d["vmode"] != "none"
    arms = []

    if fam == "string":
        n_custom = [s for s in d["san"] if s["k"] == "with"]
        customs = ", ".join("(%s) as fn(String) -> String" % san_closure(d, s) for s in n_custom)
        depth = len(d["san"])
        dec = "let x: String = <String as Dec>::dec(inp); let xx = json!({\"env\": str_env(&x, %d, &[%s])});" % (depth, customs)
        arg = "x.clone()"
    else:
        dec = "let x: Inner = <Inner as Dec>::dec(inp); let xx = Value::Null;"
        arg = "x.clone()"

    def direct(ep, expr_ok, expr_res):
        # expr_ok: expression yielding NtC ; expr_res: expression yielding Result<NtC, E>
        if expr_res is not None:
            body = "guard(|| res(%s.map(|t| t.into_inner())))" % expr_res
        else:
            body = "guard(|| ok(%s.into_inner().enc()))" % expr_ok
        arms.append('"%s" => { %s (%s, xx) }' % (ep, dec, body))

    if validated:
        direct("try_new", None, "%s::try_new(%s)" % (T, arg))
    else:
        direct("new", "%s::new(%s)" % (T, arg), None)
    if has(d, "TryFrom"):
        direct("try_from", None, "<%s as TryFrom<Inner>>::try_from(%s)" % (T, arg))
        if fam == "string":
            direct("try_from_ref", None, "<%s as TryFrom<&str>>::try_from(x.as_str())" % T)
    if has(d, "From"):
        direct("from", "<%s as From<Inner>>::from(%s)" % (T, arg), None)
        if fam == "string":
            direct("from_ref", "<%s as From<&str>>::from(x.as_str())" % T, None)
    if fam == "string" and has(d, "FromStr"):
        direct("from_str_s", None, "<%s as FromStr>::from_str(x.as_str())" % T)
    if has(d, "Default") and d["dflt"]:
        env = ""
        if fam == "string":
            n_custom = [s for s in d["san"] if s["k"] == "with"]
            customs = ", ".join("(%s) as fn(String) -> String" % san_closure(d, s) for s in n_custom)
            from .render_value import rust_str
            env = "let xx = json!({\"env\": str_env(%s, %d, &[%s])});" % (rust_str(d["dflt"][0]), len(d["san"]), customs)
        else:
            env = "let xx = Value::Null;"
        arms.append('"default" => { %s (guard(|| ok(<%s as Default>::default().into_inner().enc())), xx) }' % (env, T))
    if fam != "string" and has(d, "FromStr"):
        if validated:
            m = ("match e { NtParseError::Parse(_) => json!({\"k\": \"perr\", \"m\": msg}), "
                 "NtParseError::Validate(e) => json!({\"k\": \"err\", \"e\": format!(\"{:?}\", e), \"m\": msg, \"em\": e.to_string()}) }")
        else:
            m = "match e { NtParseError::Parse(_) => json!({\"k\": \"perr\", \"m\": msg}) }"
        arms.append(
            '"parse" => { let s: String = <String as Dec>::dec(inp); '
            'let inner = s.parse::<Inner>(); '
            'let xx = json!({"inner": match &inner { Ok(v) => json!({"ok": true, "v": [v.enc()]}), Err(_) => json!({"ok": false, "v": []}) }}); '
            '(guard(|| match s.parse::<%s>() { Ok(t) => ok(t.into_inner().enc()), Err(e) => { let msg = e.to_string(); %s } }), xx) }' % (T, m))
    arms.append('_ => (json!({"k": "noep"}), Value::Null)')
    return "pub fn call(ep: &str, inp: &Value) -> (Value, Value) {\n    match ep {\n        %s\n    }\n}\n" % ",\n        ".join(arms)


def render_variant_match(d):
    """C07: the generated error enum has exactly one variant per declared validator.
    An exhaustive match without wildcard over exactly those variants fails to compile
    (E0004 / E0599) when a variant is missing or extra."""
    if d["vmode"] != "std":
        return ""
    from .names import VARIANT
    arms = " ".join("NtError::%s => %d," % (VARIANT[r["k"]], i) for i, r in enumerate(d["val"]))
    return "pub fn variant_index(e: &NtError) -> usize { match e { %s } }\n" % arms


def render_module(d):
    src = PRELUDE + render_decl_only(d)
    inner = inner_type(d).replace("T", "i32") if d.get("gen_decl") else inner_type(d)
    src += "pub type Inner = %s;\n" % inner
    src += "pub type NtC = Nt%s;\n" % d.get("gen_use", "")
    src += render_variant_match(d)
    src += render_call(d)
    return src


def render_main(ids):
    s = MAIN_HEAD
    for k in ids:
        s += '#[path = "d/%s.rs"] mod %s;\n' % (k, k)
    s += "\nfn main() {\n    silence_panics();\n    let (script, obs) = std_args();\n    let rows = read_script(&script);\n    let mut log = Log::create(&obs);\n"
    s += "    for row in &rows {\n        let d = row[\"d\"].as_str().unwrap();\n        let call: CallFn = match d {\n"
    for k in ids:
        s += '            "%s" => %s::call,\n' % (k, k)
    s += "            _ => continue,\n        };\n        run_row(row, &mut log, call);\n    }\n    log.finish();\n}\n"
    return s

"""C16: validation error messages state the violated rule truthfully (NutypeMsg / Trace_Msg)."""
import json
import os
import random
import re

from .common import WORK, ToolError, Verdict, Timer, ensure_dir, seed, tier
from . import value_layer as VL
from . import checks_value as CV
from .tlc import run_tlc, validate_trace
from .values import INT_TYPES, f_bits, f_key, f_class, FLOAT_TYPES
from .names import VARIANT

# fixed English phrase table: phrase -> relation stated about a valid value (or its length)
PHRASES = [
    ("greater than or equal to", ">="), ("greater or equal to", ">="), ("greater or equal than", ">="),
    ("less than or equal to", "<="), ("less or equal to", "<="), ("less or equal than", "<="),
    ("no more than", "<="), ("not more than", "<="), ("no less than", ">="), ("not less than", ">="),
    ("at least", ">="), ("at most", "<="), ("not exceed", "<="), ("no longer than", "<="), ("no shorter than", ">="),
    ("greater than", ">"), ("more than", ">"), ("bigger than", ">"), ("longer than", ">"), ("above", ">"),
    ("less than", "<"), ("fewer than", "<"), ("smaller than", "<"), ("shorter than", "<"), ("below", "<"),
]

TRAITS_NUM = ["Debug", "Clone", "Copy", "PartialEq", "PartialOrd", "FromStr", "Display", "Serialize", "Deserialize", "TryFrom"]
TRAITS_STR = ["Debug", "Clone", "PartialEq", "FromStr", "Display", "Serialize", "Deserialize", "TryFrom"]


def stated_relation(text):
    t = text.lower()
    for ph, rel in PHRASES:
        if ph in t:
            return rel
    return "?"


def f_neighbour(ty, bits, up):
    """next representable non-NaN value above/below (by IEEE order)."""
    w = FLOAT_TYPES[ty]
    sign = bits >> (w - 1)
    mag = bits & ((1 << (w - 1)) - 1)
    if mag == 0:
        return (1 if up else (1 << (w - 1)) | 1)
    if (sign == 0) == up:
        return bits + 1
    return bits - 1


def make_decls(cases, rng, q):
    decls = []
    n = 0

    def rule(k, b, sp):
        return {"k": k, "b": b, "fn": "", "p": [], "sp": sp}
    for fam, kind in cases:
        if fam == "int":
            tys = ["i8", "u8", "i32", "u64", "i128", "u128", "isize"] if q else list(INT_TYPES)
            for ty in tys:
                lo, hi = INT_TYPES[ty]
                bounds = [5, 100] + ([-5, -100] if lo < 0 else [1]) + [lo + 1, hi - 1, 0 if lo < 0 else 2]
                for b in bounds:
                    for sp in ("lit", "expr"):
                        n += 1
                        decls.append({"id": "m%04d" % n, "fam": "int", "ty": ty, "src_ty": ty, "san": [], "vmode": "std",
                                      "val": [rule(kind, b, sp)], "traits": TRAITS_NUM, "dflt": [],
                                      "cells": [("below", b - 1), ("at", b), ("above", b + 1)]})
        elif fam == "float":
            for ty in ("f32", "f64"):
                lits = [("5.5", 5.5), ("-5.5", -5.5), ("0.0", 0.0), ("1000000.0", 1e6), ("-0.001", -0.001), ("1e30", 1e30)]
                for text, x in lits:
                    for sp in ("lit", "expr"):
                        b = f_bits(ty, x)
                        from . import render_value
                        render_value.FLOAT_LITS[(ty, b)] = text
                        n += 1
                        cells = [("below", f_neighbour(ty, b, False)), ("at", b), ("above", f_neighbour(ty, b, True))]
                        if x == 0.0:
                            cells.append(("at", f_bits(ty, -0.0)))       # -0.0 == 0.0: the other zero is AT the bound too
                        decls.append({"id": "m%04d" % n, "fam": "float", "ty": ty, "san": [], "vmode": "std",
                                      "val": [rule(kind, b, sp)], "traits": TRAITS_NUM, "dflt": [], "cells": cells})
        else:
            for b in (1, 3, 10):
                for sp in ("lit", "expr"):
                    n += 1
                    # lengths are counted in characters: the same cells also with 2-, 3- and 4-byte characters
                    cells = []
                    for ch in (97, 0xE9, 0x65E5, 0x1F600):
                        cells += [("below", tuple([ch] * (b - 1))), ("at", tuple([ch] * b)), ("above", tuple([ch] * (b + 1)))]
                    decls.append({"id": "m%04d" % n, "fam": "string", "ty": "String", "san": [], "vmode": "std",
                                  "val": [rule(kind, b, sp)], "traits": TRAITS_STR, "dflt": [], "cells": cells})
    # the same declarations in company: a second validator that every cell satisfies (the other side far away, `finite`
    # for floats, the other length bound for strings). The message of the first rule must stay truthful.
    extra = []
    for d in decls:
        k = d["val"][0]["k"]
        if d["val"][0]["sp"] != "lit" and d["fam"] != "string":
            continue
        if d["fam"] == "int":
            lo, hi = INT_TYPES[d["ty"]]
            comp = rule("less_or_equal", hi, "lit") if k in ("greater", "greater_or_equal") else rule("greater_or_equal", lo, "lit")
        elif d["fam"] == "float":
            comp = rule("finite", 0, "lit")
        else:
            comp = rule("len_char_max", d["val"][0]["b"] + 40, "lit") if k == "len_char_min" else rule("len_char_min", 0, "lit")
        n += 1
        e = dict(d)
        e["id"] = "m%04d" % n
        e["val"] = [d["val"][0], comp]
        extra.append(e)
    return decls + extra


def check_C16():
    t = Timer()
    q = tier() == "quick"
    rng = random.Random(seed())
    verdict = Verdict("C16")
    r = run_tlc("MC_Msg", "MC_Msg.cfg", "mc_msg", workers=4)
    cases = sorted(set((a, b) for (a, b) in r.tag("CASE")))
    if len(cases) != 10:
        raise ToolError("NutypeMsg emitted %d cases, expected 10" % len(cases))
    decls = make_decls(cases, rng, q)
    by_id = {d["id"]: d for d in decls}

    def rows_of(d):
        lo_hi = INT_TYPES.get(d["ty"])
        cells = [(c, v) for (c, v) in d["cells"] if not (lo_hi and not (lo_hi[0] <= v <= lo_hi[1]))]
        ins = [VL.enc_value(d, v) for (_c, v) in cells]
        rows = [{"d": d["id"], "ep": "msgs", "ins": [None]}, {"d": d["id"], "ep": "try_new", "ins": ins}]
        rows.append({"d": d["id"], "ep": "deser", "ins": [{"fmt": fmt, "pos": "top", "val": v} for fmt in ("json", "ron", "msgpack") for v in ins]})
        return rows
    obs, rejected, alive = CV.build_and_run("c16", decls, rows_of, ["serde"], ["serde"], nshards=4)
    if len(rejected) > len(decls) // 2:
        raise ToolError("most C16 declarations failed to compile: %s" % list(rejected.items())[:2])
    events, index = [], []
    for p in obs:
        per = {}
        for line in open(p):
            o = json.loads(line)
            per.setdefault(o["d"], {})[o["ep"]] = o["b"]
        for did, eps in per.items():
            d = by_id[did]
            kind = d["val"][0]["k"]
            lo_hi = INT_TYPES.get(d["ty"])
            cells = [(c, v) for (c, v) in d["cells"] if not (lo_hi and not (lo_hi[0] <= v <= lo_hi[1]))]
            m = eps["msgs"][0][1]["msgs"][0]
            text = m["text"]
            tn = eps["try_new"]
            cell_recs = [{"cell": c, "accepted": tn[i][1].get("k") == "ok"} for i, (c, _v) in enumerate(cells)]
            embeds = []
            if m["parse_msg"]:
                embeds.append(text in m["parse_msg"])
            for i in range(len(eps["deser"])):      # every format x cell
                out = eps["deser"][i][1]
                if out.get("k") not in ("ok", "skip"):
                    embeds.append(text in out.get("m", ""))
            bd = m["bound_dbg"]
            # the text under other formatter states (precision, width, sign, zero padding) still names the declared bound in full
            for r_ in m.get("renderings", []):
                embeds.append(re.search(r"(?<![\w.\-])" + re.escape(bd) + r"(?![\w])", r_) is not None if bd else True)
            names_bound = re.search(r"(?<![\w.\-])" + re.escape(bd) + r"(?![\w])", text) is not None
            ev = {"d": did, "fam": d["fam"], "kind": kind, "rel": stated_relation(text),
                  "names_type": re.search(r"\bNt\b", text) is not None, "names_bound": names_bound,
                  "embeds": embeds, "cells": cell_recs}
            events.append(ev)
            index.append((did, text, m))
    tdir = ensure_dir(os.path.join(WORK, "trace", "c16"))
    tp = os.path.join(tdir, "trace.ndjson")
    with open(tp, "w") as f:
        for e in events:
            f.write(json.dumps(e) + "\n")
    summary, bad, drift, tr = validate_trace("Trace_Msg", "Trace_Msg.cfg", "trace_c16", tp, tp)
    for (l, _i, obj) in bad:
        did, text, m = index[l - 1]
        d = by_id[did]
        rec = {"property": "C16", "decl": did, "family": d["fam"], "ty": d["ty"], "kind": obj["kind"],
               "message": text, "stated_relation": obj["rel"], "cells_truthful": obj["cells_ok"],
               "names_type": obj["names_type"], "names_bound": obj["names_bound"], "embeds": obj["embeds"], "embeds_all": all(obj["embeds"]),
               "declaration": CV.describe_decl(d),
               "summary": "%s %s %s: message %r states '%s' (truthful in every cell: %s, names type: %s, names bound: %s, embedded: %s)" % (
                   did, d["ty"], obj["kind"], text, obj["rel"], obj["cells_ok"], obj["names_type"], obj["names_bound"], obj["embeds"])}
        verdict.violation(rec)
    if summary.get("inconclusive"):
        verdict.notes.append("%d messages use no phrase of the table (inconclusive, not a violation)" % summary["inconclusive"])
    cov = {"states": r.distinct + tr.distinct, "transitions": r.generated + tr.generated,
           "traces_validated_against_impl": summary["events"],
           "evaluations": summary["events"], "distinct_nontrivial": len(set((e["fam"], e["kind"], e["rel"]) for e in events)),
           "rule": "TLC enumerates family x bound-validator kind x cell on the message model; each case is instantiated over inner types, bound signs/magnitudes "
                   "and literal/expression spellings; the real Display text is read with a fixed phrase table and validated by TLC against the constructor's verdicts "
                   "below/at/above the bound; distinct = (family, kind, stated relation) classes observed",
           "declarations": len(decls), "not_evaluated": len(rejected), "inconclusive": summary.get("inconclusive", 0),
           "samples": [{"decl": CV.describe_decl(by_id[index[0][0]]).strip().splitlines()[-4:], "message": index[0][1]}] if index else ["none"],
           "exhaustive": False}
    ev = {"tier": tier(), "seed": seed(), "level": "model_checking", "coverage": cov,
          "assumptions": ["the English phrase table in harness/py/vh/props_msg.py; an unrecognised phrase is inconclusive"]}
    return verdict.finish(ev, t.s())

SPECIFICATION DSpec
CONSTANTS
  Tier = "quick"
INVARIANTS
  AgreesWithReference
  EnforcesWritten
  CandidatesAreDisagreements
  GeneratedTestsCatch
  EmitSrc
CHECK_DEADLOCK FALSE

----------------------------- MODULE MC_ArbFloat -----------------------------
(***************************************************************************)
(* DESIGN model of the float generator (float/gen/traits/arbitrary.rs),    *)
(* as repaired (see DESIGN.md section 15).  The arithmetic is modelled on  *)
(* a small integer line: the lower bound sits at 0, the upper bound at 4;  *)
(* `from0to1` takes the values 0, 1/2, 1; one unit is "one representable   *)
(* step".  The shape attributes `absorbed` (|bound| so large that adding a *)
(* small number does not change it) and `overflow` (bounds so far apart /  *)
(* so large that the naive arithmetic overflows) are magnitude classes of  *)
(* the DECLARATION; the repaired algorithm must be valid for all of them:  *)
(*   - two-sided: convex interpolation lower*(1-t) + upper*t (no overflow),*)
(*     clamped into the closed range, then exact one-step adjustment at an *)
(*     exclusive boundary (never absorbed);                                *)
(*   - one-sided: |basic| + bound, brought back to MAX/MIN under `finite`, *)
(*     then the same exact adjustment.                                     *)
(* The rounding of the interpolation is modelled by a nondeterministic     *)
(* error of one step in either direction (before the clamp).               *)
(*                                                                         *)
(*   Basic -> Scale/Shift -> Clamp -> AdjustLower -> AdjustUpper -> Construct *)
(*                                                                         *)
(* DECLARATIVE (C09): the result satisfies every validator.  Before the    *)
(* repair TLC listed the (shape, input class) pairs that ended in a panic  *)
(* (fixed delta absorbed; `upper - lower` overflowing); none is left.      *)
(***************************************************************************)
EXTENDS Integers, Sequences, FiniteSets, TLC, Json

LK == {"none", "greater", "greater_or_equal"}
UK == {"none", "less", "less_or_equal"}
Lo == 0
Up == 4

Num(v) == [k |-> "num", v |-> v]
Inf == [k |-> "inf", v |-> 1000]
NaN == [k |-> "nan", v |-> 0]

Add(x, n) == IF x.k = "num" THEN Num(x.v + n) ELSE x

Shapes == [lk : LK, uk : UK, finite : BOOLEAN, absorbed : BOOLEAN, overflow : BOOLEAN]

\* input classes
TClasses == {0, 2, 4}                              \* from0to1 * range
BasicClasses == {"zero", "pos", "maxfinite", "inf"}

VARIABLES sh, inp, pc, x, out
fvars == <<sh, inp, pc, x, out>>

Delta(s) == IF s.absorbed THEN 0 ELSE 1
TwoSided(s) == s.lk # "none" /\ s.uk # "none"

\* overflow: two-sided: upper - lower = inf; one-sided: the bound is so large that MAX + bound = inf
FInit == /\ sh \in Shapes /\ (sh.overflow => sh.absorbed) /\ ~(sh.overflow /\ sh.lk = "none" /\ sh.uk # "none")
         /\ inp \in (IF TwoSided(sh) THEN {[t |-> t, b |-> "zero"] : t \in TClasses}
                     ELSE {[t |-> 0, b |-> b] : b \in BasicClasses})
         /\ (inp.b = "inf" => ~sh.finite /\ (sh.lk # "none" \/ sh.uk # "none"))   \* NotNaN kind admits infinities, Finite does not
         /\ pc = "scale" /\ x = Num(0) /\ out = "none"

\* x = lower * (1 - from0to1) + upper * from0to1, off by at most one step, clamped into [lower, upper]   (two-sided)
\* x = |basic| + lower   /   x = -|basic| + upper, brought back to MAX / MIN under `finite`             (one-sided)
Clamp(v) == IF v < Lo THEN Lo ELSE IF v > Up THEN Up ELSE v
Scale ==
  /\ pc = "scale"
  /\ \E err \in {-1, 0, 1} :
     x' = IF TwoSided(sh)
          THEN Num(Clamp(Lo + inp.t + err))
          ELSE IF sh.lk # "none"
               THEN (CASE inp.b = "zero" -> Num(Lo) [] inp.b = "pos" -> Num(Lo + 2)
                       [] inp.b = "maxfinite" -> (IF sh.overflow THEN (IF sh.finite THEN Num(Lo + 3) ELSE Inf) ELSE Num(Lo + 2))   \* MAX + huge bound overflows: MAX again under `finite`
                       [] inp.b = "inf" -> Inf)
               ELSE IF sh.uk # "none"
               THEN (CASE inp.b = "zero" -> Num(Up) [] inp.b = "pos" -> Num(Up - 2)
                       [] inp.b = "maxfinite" -> Num(Up - 3) [] inp.b = "inf" -> [k |-> "inf", v |-> -1000])
               ELSE Num(1)
  /\ pc' = "adjust_lower"
  /\ UNCHANGED <<sh, inp, out>>

\* gen_adjust_x_for_lower_boundary(&lower)
AdjustLower ==
  /\ pc = "adjust_lower"
  /\ x' = IF sh.lk = "greater" /\ x.k = "num" /\ x.v <= Lo THEN Num(Lo + 1)            \* the next representable value above the boundary
          ELSE IF sh.lk = "greater_or_equal" /\ x.k = "num" /\ x.v < Lo THEN Num(Lo) ELSE x
  /\ pc' = "adjust_upper"
  /\ UNCHANGED <<sh, inp, out>>

\* gen_adjust_x_for_upper_boundary(&upper)   (two-sided: fix d7795c5; it used to receive the lower boundary)
AdjustUpper ==
  /\ pc = "adjust_upper"
  /\ x' = IF sh.uk = "less" /\ x.k = "num" /\ x.v >= Up THEN Num(Up - 1)               \* the next representable value below the boundary
          ELSE IF sh.uk = "less_or_equal" /\ x.k = "num" /\ x.v > Up THEN Num(Up) ELSE x
  /\ pc' = "construct"
  /\ UNCHANGED <<sh, inp, out>>

Valid(s, v) ==
  /\ v.k # "nan" => TRUE
  /\ (s.finite => v.k = "num")
  /\ (v.k = "nan" => TRUE)
  /\ (v.k # "nan" =>
        /\ (s.lk = "greater" => v.v > Lo) /\ (s.lk = "greater_or_equal" => v.v >= Lo)
        /\ (s.uk = "less" => v.v < Up) /\ (s.uk = "less_or_equal" => v.v <= Up))

Construct ==
  /\ pc = "construct"
  /\ out' = IF Valid(sh, x) THEN "ok" ELSE "panic"
  /\ pc' = "done"
  /\ UNCHANGED <<sh, inp, x>>

FSpec == FInit /\ [][Scale \/ AdjustLower \/ AdjustUpper \/ Construct]_fvars

\* (the candidates of DESIGN.md section 7, #3 and #4 - fixed delta absorbed, `upper - lower` overflowing, MAX + bound
\* under `finite` - are repaired; nothing is excused any more)
KnownF(s) == FALSE

NoPanicF == (pc = "done") => (out = "ok" \/ KnownF(sh))
EmitShape == (pc = "scale" /\ inp.t = 0 /\ inp.b = "zero") => PrintT(<<"SHAPE", 0, ToJson([sh |-> sh, known |-> KnownF(sh)])>>)
EmitPanic == (pc = "done" /\ out = "panic") => PrintT(<<"PANIC", 0, ToJson([sh |-> sh, inp |-> inp])>>)
=============================================================================

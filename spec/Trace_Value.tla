---------------------------- MODULE Trace_Value ----------------------------
(***************************************************************************)
(* Trace validation of recorded executions of the REAL generated code      *)
(* against the run-time layer (bindings B1/B2 of DESIGN.md).               *)
(*                                                                         *)
(* The trace (IOEnv.TRACE, ndjson) is a sequence of events; one event is   *)
(* the record of one driver batch: a declaration id, an entry point or     *)
(* observer name, and parallel sequences of inputs, observed outcomes and  *)
(* (for strings) the environment observations the specification does not  *)
(* own: std's string primitives on the strings that occurred.              *)
(* IOEnv.DECLS is the declaration table.                                   *)
(*                                                                         *)
(* Each step consumes one event and judges every (input, outcome) pair:    *)
(*   - against the DECLARATIVE statements (DeclCall, Canonical, Transparent*)
(*     ...): a mismatch is reported as BAD (the harness turns it into      *)
(*     VIOLATION / KNOWN-FINDING);                                         *)
(*   - call events also against the OPERATIONAL OpCall: a mismatch that is *)
(*     not BAD is reported as DRIFT (model no longer transcribes the code).*)
(* The step never blocks, so the rest of the trace is always examined.     *)
(*                                                                         *)
(* State carried along the trace: the NaN policy inferred so far.  The     *)
(* properties do not say whether NaN satisfies `less = b`; the code must   *)
(* follow ONE policy per bound kind at every entry point, and the trace    *)
(* spec infers it: the first observation that pins a kind fixes it, any    *)
(* later observation that needs the opposite is BAD.                       *)
(*                                                                         *)
(* Event kinds (field ep):                                                 *)
(*   entry points  try_new new try_from from try_from_ref from_ref         *)
(*                 from_str_s default parse deser        -> DeclCall       *)
(*   canon         the constructor applied to a stored value: DeclCall and,*)
(*                 for built-in guards, the result is that same value (C11)*)
(*   views         AsRef/Deref/Borrow/Into/Clone/Display of a stored value *)
(*                 next to the inner value's own answers (C13)             *)
(*   cmp           ==, partial_cmp, cmp, hash of two stored values next to *)
(*                 the inner values' answers; rank order for floats        *)
(*                 (C12, C13)                                              *)
(*   arb           one call of the derived Arbitrary on a byte string (C09)   *)
(*   arb_cover     the set of values produced over all inputs up to two bytes *)
(*                 as contiguous runs, with panic / error counts (C14)        *)
(*   sort          slice::sort / BTreeSet / max over obtained values (C12)    *)
(*   ser           serialization of a stored value next to the inner       *)
(*                 value's / a serde-derived newtype's encoding (C10)      *)
(***************************************************************************)
EXTENDS NutypeArb, Json, IOUtils, TLCExt

Rec   == ndJsonDeserialize(IOEnv.TRACE)
Decls == JsonDeserialize(IOEnv.DECLS)

VARIABLES
  l,      \* index of the next event
  pol,    \* [BoundKinds -> {"?", "pass", "viol"}]: inferred NaN policy
  nbad,   \* number of BAD pairs so far
  ndrift, \* number of DRIFT pairs so far
  npairs  \* number of judged pairs so far

tvars == <<l, pol, nbad, ndrift, npairs>>

\* environment lookup: env[name] is a sequence of <<input, output>> pairs
TracePrim(n, x, env) ==
  LET tbl == env[n]
      S == {i \in DOMAIN tbl : tbl[i][1] = x}
  IN IF S = {} THEN Assert(FALSE, <<"environment table lacks an entry", n, x>>)
     ELSE tbl[CHOOSE i \in S : TRUE][2]

Policies == [BoundKinds -> BOOLEAN]
Compatible(nv, p) == \A k \in BoundKinds : (p[k] = "pass" => ~nv[k]) /\ (p[k] = "viol" => nv[k])

\* per-pair environment observation (string family only)
EnvOf(e, i) == IF e.envs = <<>> THEN <<>> ELSE e.envs[i]

CallEps == DirectEps \cup {"default", "parse", "deser", "deser_any", "canon"}
BaseEp(d, ep) == IF ep = "canon" THEN CtorName(d) ELSE IF ep = "deser_any" THEN "deser" ELSE ep

\* "deser_any": routes on which the deserializer does not call visit_newtype_struct (a self-describing value tree, a
\* deserializer that presents the payload as a sequence).  Whether such a route is supported at all is not C04's
\* business; its soundness half is: the result is an error, or exactly what the constructor makes of the payload.
Lenient(e, i) == e.ep = "deser_any" /\ e.outs[i].k \in {"derr", "err"}

\* does judging this pair depend on the NaN policy?
NanMatters(d, inp, env) ==
  /\ d.fam = "float" /\ d.vmode = "std" /\ inp.ok
  /\ LET s == SanAll(d, IF inp.v = <<>> THEN d.dflt[1] ELSE inp.v[1], env) IN
     \E i \in DOMAIN d.val : NanInvolved(d.fam, d.val[i], s)

\* C11: stored values are fixed points of the guarded constructor
CanonOK(d, e, i) ==
  (e.ep = "canon" /\ Builtin(d)) => e.outs[i] = OkOut(e.ins[i].v[1])

\* ---- observers (no NaN policy involved) -------------------------------------

\* every present field of `o` listed in `fields` holds <<x>> with x = v
AllShow(o, fields, v) == \A f \in fields : (f \in DOMAIN o) => (o[f] = <<>> \/ o[f] = <<v>>)

ViewsOK(d, v, o) ==
  /\ "panic" \notin DOMAIN o
  /\ AllShow(o, {"into_inner", "as_ref", "deref", "borrow", "borrow2", "into", "clone", "iter", "iter_ref"}, v)
  /\ ("disp" \in DOMAIN o => \A j \in DOMAIN o.disp : o.disp[j][1] = o.disp[j][2])   \* <<newtype text, inner text>> per format spec
  /\ ("ptr" \in DOMAIN o => \A j \in DOMAIN o.ptr : o.ptr[j])                         \* views point into the wrapper

\* IEEE / integer comparison of two model values
CmpOf(fam, a, b) ==
  IF fam = "float"
  THEN (IF IsNaN(a) \/ IsNaN(b) THEN "None" ELSE IF a.r < b.r THEN "Less" ELSE IF a.r > b.r THEN "Greater" ELSE "Equal")
  ELSE IF fam = "int" THEN (IF a < b THEN "Less" ELSE IF a > b THEN "Greater" ELSE "Equal")
  ELSE "?"

CmpOK(d, a, b, o) ==
  \* transparency (C13): the newtype's answers are the inner values' answers
  /\ ("eq" \in DOMAIN o => o.eq = o.ieq)
  /\ ("pcmp" \in DOMAIN o => o.pcmp = o.ipcmp)
  /\ ("cmp" \in DOMAIN o => (o.cmp = o.ipcmp /\ o.cmp # "panic" /\ o.cmp # "None"))
  /\ ("hash" \in DOMAIN o => \A j \in DOMAIN o.hash : o.hash[j])
  \* the environment's answers are what the model says about these values (C12: rank order)
  /\ (d.fam \in {"int", "float"} =>
        /\ ("pcmp" \in DOMAIN o => o.ipcmp = CmpOf(d.fam, a, b))
        /\ ("eq" \in DOMAIN o => o.ieq = (CmpOf(d.fam, a, b) = "Equal")))
  \* lawful Eq: reflexive on obtainable values
  /\ (("eq" \in DOMAIN o /\ NInSeq("Eq", d.traits) /\ a = b) => o.eq)

\* C10: the serialization is the serde-newtype encoding of the inner value
\* (nothing is demanded when the format cannot encode the inner value at all, e.g. i128 in RON)
SerOK(d, v, o) ==
  o.ref_ok => (o.k = "ok" /\ o.same)   \* bytes equal the reference encoding (inner value for JSON/MessagePack, serde newtype for RON)

\* C12: sorting and ordered-set insertion of obtained values: no panic, the
\* result is ordered by the model's order, nothing is lost or invented
RankLe(fam, a, b) == CmpOf(fam, a, b) \in {"Less", "Equal"}
SortOK(d, made, o) ==
  /\ o.k = "ok"
  /\ Len(o.sorted) = Len(made)
  /\ \A j \in 1..(Len(o.sorted) - 1) : RankLe(d.fam, o.sorted[j], o.sorted[j + 1])
  /\ \A j \in DOMAIN made : \E m \in DOMAIN o.sorted : CmpOf(d.fam, made[j], o.sorted[m]) = "Equal"
  /\ \A j \in 1..(Len(o.set) - 1) : CmpOf(d.fam, o.set[j], o.set[j + 1]) = "Less"
  /\ \A j \in DOMAIN made : \E m \in DOMAIN o.set : CmpOf(d.fam, made[j], o.set[m]) = "Equal"
  /\ (made # <<>> => (o.max # <<>> /\ \A j \in DOMAIN made : RankLe(d.fam, made[j], o.max[1])))

\* C09: one generator call: an arbitrary::Error or a value satisfying every validator; never a panic or a hang
ArbOK(d, o) == o.k = "aerr" \/ (o.k = "ok" /\ (d.vmode # "std" \/ Violated(d, o.v[1], CodeNanPolicy) = {}))

\* C14: the set produced over ALL byte strings the range can consume is the valid interval
ValidLo(d) == NMax({d.tmin} \cup {d.val[j].b + 1 : j \in {k \in DOMAIN d.val : d.val[k].k = "greater"}}
                           \cup {d.val[j].b : j \in {k \in DOMAIN d.val : d.val[k].k = "greater_or_equal"}})
ValidHi(d) == NMin({d.tmax} \cup {d.val[j].b - 1 : j \in {k \in DOMAIN d.val : d.val[k].k = "less"}}
                           \cup {d.val[j].b : j \in {k \in DOMAIN d.val : d.val[k].k = "less_or_equal"}})
\* with a sanitizer the obtainable set is the image of the valid inputs (computed on the concrete 8-bit types only);
\* whether the generator panics on the way is C09's subject, here only the range counts
RunSet(runs) == UNION {runs[j][1]..runs[j][2] : j \in DOMAIN runs}
CoverOK(d, o) ==
  IF d.san = <<>>
  THEN o.panics = 0 /\ o.runs = (IF ValidLo(d) <= ValidHi(d) THEN <<<<ValidLo(d), ValidHi(d)>>>> ELSE <<>>)
  ELSE (d.ty \in {"i8", "u8"}) => RunSet(o.runs) = Obtainable(d, d.tmin..d.tmax)

ObsBad(d, e, i) ==
  CASE e.ep = "views" -> ~ViewsOK(d, e.ins[i].v[1], e.outs[i])
    [] e.ep = "cmp"   -> ~CmpOK(d, e.ins[i].v[1], e.ins[i].v[2], e.outs[i])
    [] e.ep = "ser"   -> ~SerOK(d, e.ins[i].v[1], e.outs[i])
    [] e.ep = "sort"  -> ~SortOK(d, e.ins[i].v[1], e.outs[i])
    [] e.ep = "arb"   -> ~ArbOK(d, e.outs[i])
    \* C14 on ranges too wide to enumerate: a byte string the harness computed by inverting int_in_range must produce the
    \* targeted valid value (ins[i].v = <<bytes, target>>)
    [] e.ep = "arb_hit" -> e.outs[i] # OkOut(e.ins[i].v[2])
    [] e.ep = "arb_cover" -> ~CoverOK(d, e.outs[i])
    [] OTHER          -> Assert(FALSE, <<"unknown event kind", e.ep>>)

TraceInit == l = 1 /\ pol = [k \in BoundKinds |-> "?"] /\ nbad = 0 /\ ndrift = 0 /\ npairs = 0

StepCall(e, d) ==
  LET N   == DOMAIN e.ins
      bep == BaseEp(d, e.ep)
      nanI == {i \in N : NanMatters(d, e.ins[i], EnvOf(e, i))}
      plain == N \ nanI
      anyNv == CodeNanPolicy
      badPlain == {i \in plain : ~(DeclOK(d, bep, e.ins[i], EnvOf(e, i), anyNv, e.outs[i]) \/ Lenient(e, i)) \/ ~CanonOK(d, e, i)}
      cands == IF nanI = {} THEN {anyNv}
               ELSE {nv \in Policies : Compatible(nv, pol) /\
                       \A i \in nanI : DeclOK(d, bep, e.ins[i], EnvOf(e, i), nv, e.outs[i]) \/ Lenient(e, i)}
      \* no policy explains the whole batch: blame the pairs that no compatible policy explains on their own
      \* (all NaN-dependent pairs only if each of them is explainable separately, i.e. they contradict one another)
      compat == {nv \in Policies : Compatible(nv, pol)}
      indiv == {i \in nanI : \A nv \in compat : ~(DeclOK(d, bep, e.ins[i], EnvOf(e, i), nv, e.outs[i]) \/ Lenient(e, i))}
      badNan == IF cands = {} THEN (IF indiv # {} THEN indiv ELSE nanI) ELSE {i \in nanI : ~CanonOK(d, e, i)}
      bad == badPlain \cup badNan
      drift == {i \in N \ bad : e.outs[i] # OpCall(d, bep, e.ins[i], EnvOf(e, i)) /\ ~(bep = "deser" /\ ~e.ins[i].ok) /\ ~Lenient(e, i)}
  IN
    /\ \A i \in bad :
         PrintT(<<"BAD", l, i, ToJson([d |-> e.d, ep |-> e.ep, inp |-> e.ins[i], got |-> e.outs[i],
                   want |-> DeclCall(d, bep, e.ins[i], EnvOf(e, i), anyNv),
                   nan |-> (i \in nanI)])>>)
    /\ \A i \in drift :
         PrintT(<<"DRIFT", l, i, ToJson([d |-> e.d, ep |-> e.ep, inp |-> e.ins[i], got |-> e.outs[i],
                   model |-> OpCall(d, bep, e.ins[i], EnvOf(e, i))])>>)
    /\ nbad' = nbad + Cardinality(bad)
    /\ ndrift' = ndrift + Cardinality(drift)
    /\ npairs' = npairs + Cardinality(N)
    /\ pol' = IF nanI = {} \/ cands = {} THEN pol
              ELSE [k \in BoundKinds |->
                      IF \A nv \in cands : nv[k] THEN "viol"
                      ELSE IF \A nv \in cands : ~nv[k] THEN "pass" ELSE pol[k]]

StepObs(e, d) ==
  LET N == DOMAIN e.ins
      bad == {i \in N : ObsBad(d, e, i)}
  IN
    /\ \A i \in bad :
         PrintT(<<"BAD", l, i, ToJson([d |-> e.d, ep |-> e.ep, inp |-> e.ins[i], got |-> e.outs[i],
                   want |-> NoneOut, nan |-> FALSE])>>)
    /\ nbad' = nbad + Cardinality(bad)
    /\ npairs' = npairs + Cardinality(N)
    /\ UNCHANGED <<ndrift, pol>>

Step ==
  /\ l <= Len(Rec)
  /\ LET e == Rec[l]
         d == Decls[e.d]
     IN IF e.ep \in CallEps THEN StepCall(e, d) ELSE StepObs(e, d)
  /\ l' = l + 1

TraceSpec == TraceInit /\ [][Step]_tvars

\* every event was consumed: one state per event plus the initial state
TraceConsumed ==
  IF TLCGet("stats").diameter - 1 = Len(Rec) THEN TRUE
  ELSE PrintT(<<"UNCONSUMED", TLCGet("stats").diameter - 1, Len(Rec)>>) /\ FALSE

\* final report, printed when the last event has been consumed
Report == (l = Len(Rec) + 1) =>
  PrintT(<<"SUMMARY", ToJson([events |-> Len(Rec), pairs |-> npairs, bad |-> nbad, drift |-> ndrift, pol |-> pol])>>)

=============================================================================

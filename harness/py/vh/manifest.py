"""Writes /verif/MANIFEST.json from the registry (single source of truth for the interface file)."""
import json
import os

from .common import VERIF

LEVEL_NOTE = ("Trusted base: TLC/SANY 1.8 with the Json/IOUtils community modules; rustc/cargo; the harness "
              "projection of concrete values onto model values (harness/py/vh/values.py); std/serde/regex as "
              "environment whose observations are logged with the events.")

CHECKS = {
    "C01": ("constructors = sanitize-then-validate",
            "TLC model-checks the operational transcription of try_new/new (ValueMachine) against the declarative "
            "DeclCtor on bounded declaration x input spaces of all four families; a seeded sample of the enumerated "
            "declarations is compiled against /repo and every (input, outcome) pair recorded from the real "
            "constructors is validated by TLC against the declarative statement (Trace_Value).",
            "6 C01"),
    "C03": ("derived conversions and Default agree with the constructor",
            "Same engine as C01 with the entry points TryFrom/From (String and &str), string FromStr and Default "
            "next to the constructor: TLC judges each recorded call against DeclCall, which is the constructor's "
            "declarative outcome (Default: panic exactly when the constructor rejects the default).",
            "6 C03"),
    "C07": ("first violated rule; exactly the declared error variants",
            "TLC model-checks the sequential early-return __validate__ against the declarative 'variant of the minimum "
            "violated index' over every permutation of the validator lists of each family (contradictory expression "
            "bounds, inf/NaN against finite+bounds, empty string against not_empty+len_char_min+regex); the real code is "
            "driven with the same declarations, every recorded error variant is validated by TLC, and an exhaustive "
            "match without wildcard pins the set of variants of every generated error enum.",
            "6 C07"),
    "C04": ("Deserialize = inner Deserialize then constructor, in every position",
            "The Deserialize action of the run-time layer (inner result from the environment, then the constructor) is model-checked "
            "against the declarative statement; the real code is driven with a document matrix (formats x positions x payloads) and "
            "TLC validates every recorded result, the environment's observation being a serde-derived reference newtype reading the "
            "same document in the same position.",
            "6 C04"),
    "C06": ("non-string FromStr = inner FromStr then constructor",
            "The FromStr action (Parse error exactly when the inner parse fails, else the constructor's outcome with Validate wrapping) "
            "is model-checked; recorded from_str calls on boundary, malformed and random texts, each with the inner type's own parse "
            "result as logged environment, are validated by TLC.",
            "6 C06"),
    "C10": ("transparent serialization, round trip",
            "Serialization events (bytes of the newtype next to the reference encoding) and round-trip events (deserializing the "
            "serialization of every obtained value) are validated by TLC: transparency always, identity of the round trip for guards with "
            "idempotent sanitisation whenever the inner value itself round-trips in that format.",
            "6 C10"),
    "C11": ("stored values are canonical",
            "TLC checks on the string alphabet (with std's measured tables) that stored values are fixed points of built-in sanitizer chains; "
            "the real code re-enters every obtained value through the constructor, TryFrom, Display->FromStr and Serialize->Deserialize and "
            "TLC validates each recorded result against the constructor's declarative outcome on the stored value and, for idempotent guards, "
            "against the stored value itself (std's primitives on real Unicode are logged environment).",
            "6 C11"),
    "C13": ("views and comparison traits are transparent",
            "Observation events (every derived view of an obtained value; ==, partial_cmp, cmp, hash of pairs of obtained values, each next "
            "to the inner values' own answers) are validated by TLC against the Transparent statement of the specification.",
            "6 C13"),
    "C12": ("float finite => lawful Eq / total Ord",
            "TLC checks on the abstract float line that no creating action of a declaration with `finite` wraps NaN or an infinity; the real "
            "code of f32/f64 declarations deriving Eq/Ord is driven through every entry point with NaN payloads, infinities, signed zeros, "
            "subnormals and extremes, and TLC validates every outcome, every ==/partial_cmp/cmp answer on pair grids against the rank order, "
            "and slice::sort / BTreeSet / max results.",
            "6 C12"),
    "C16": ("error messages state the violated rule truthfully",
            "TLC model-checks the transcribed message table against the literal meaning of the stated relation in the cells below/at/above "
            "the bound (the untruthful pairs it finds are the candidates); the real Display texts, read with a fixed phrase table, are validated "
            "by TLC (Trace_Msg) against the real constructor's verdicts in the three cells, plus naming of type and bound and embedding in the "
            "FromStr and serde errors. The free-text half (phrase table) is the weak part: unrecognised phrases are inconclusive.",
            "6 C16"),
    "C02": ("written rules are enforced as written or rejected",
            "The bound parser (speculative literal, fallback expression on the real cursor) and the attribute loop (each block kind is assigned) are "
            "transcribed into TLA+ and model-checked against the denotation of the written source; the spellings/layouts where they differ are the "
            "candidates. Every spelling and layout is compiled against /repo; accepted ones are driven around the denoted bound and TLC validates the "
            "recorded behaviour against the DENOTED declaration (Trace_Value); written derives are probed at compile time.",
            "6 C02"),
    "C08": ("unsound declarations refused, well-formed ones accepted, generated tests catch the rest",
            "The expansion pipeline (parse_meta, attribute loop, guard validation, trait validation, generation, rustc) is a TLA+ state machine "
            "model-checked against an independent three-valued reference predicate over slices of the attribute grammar; every enumerated declaration is "
            "built against /repo under its feature set and TLC validates the real verdicts (and the results of the generated unit tests) against the "
            "reference predicate.",
            "6 C08"),
    "C15": ("no_std-clean expansion",
            "Configuration enumeration: the well-formed non-string declarations of MC_Decl (derive sets x validation kinds x const_fn/default/custom "
            "error/generics) are built inside a #![no_std] crate against nutype without default features; TLC validates the verdicts. The specification "
            "contributes the space and the expected verdict, nothing deeper (labelled as such).",
            "6 C15"),
    "C05": ("no safe way around the guards",
            "Design level: TLC checks for every configuration (family x validation x derive set x new_unchecked flag x feature x visibility x const_fn) that "
            "no item the generator emits offers a bypass capability, and enumerates (configuration, attack) pairs. Structural: the real expansions, recorded by the "
            "verif_hooks hook and turned into capability records by a syn analyser, are validated by TLC against the same rules. Attack catalogue: every enumerated "
            "attack program must fail to compile (positive controls must compile). 'For all client programs' is approximated by catalogue + structural argument.",
            "6 C05"),
    "C09": ("derived Arbitrary is total and yields valid values",
            "Three generator models are model-checked: integers exactly (boundary derivation with token splicing + arbitrary's int_in_range), strings exactly "
            "over character classes (specification, fill, trim/refill loop, constructor), floats as a design model of the scaling/adjust arithmetic; the cases "
            "where they end in a rejected value are the candidates. The real generators of the enumerated declarations/shapes are driven with empty, boundary, "
            "model-derived and random byte strings under catch_unwind with a watchdog and TLC validates every outcome.",
            "6 C09"),
    "C14": ("integer Arbitrary covers the valid range",
            "The exact integer generator model is checked by TLC for range = valid set over every byte string; the real generator of every enumerated declaration "
            "(and lifted twins) is run on ALL byte strings of length 0..2 and TLC validates that the produced set equals the valid interval.",
            "6 C14"),
}


def build():
    checks = []
    for pid, (tech, text, ref) in sorted(CHECKS.items()):
        checks.append({
            "property_id": pid,
            "quick_cmd": "./check %s --tier quick" % pid,
            "thorough_cmd": "./check %s --tier thorough" % pid,
            "evidence_file": "/verif/evidence/%s.json" % pid,
            "replay_cmd_template": "./check %s --replay {path}" % pid,
            "engine": "tla-value-layer",
            "level_claimed": {"category": "model_checking", "text": text, "design_ref": "DESIGN.md section " + ref},
            "level_note": LEVEL_NOTE,
            "technique": "explicit TLA+ spec + TLC model checking + trace validation of recorded executions (" + tech + ")",
        })
    props = [json.loads(l)["id"] for l in open(os.path.join(VERIF, "properties.jsonl"))]
    na = [{"property_id": p, "reason": "check not built yet in this round (planned: DESIGN.md section 6)"}
          for p in props if p not in CHECKS]
    return {
        "version": 1,
        "setup_cmd": "./setup.sh",
        "hooks": {
            "guard": "verif_hooks (cargo feature of nutype_macros, forwarded by nutype; off by default)",
            "enable": "features = [\"verif_hooks\"] on the nutype dependency of the generated crates and NUTYPE_VERIF_TRACE=<file> in the environment of cargo (used by ./check C05)",
            "baseline_off_cmd": "cd /repo && cargo test --workspace --no-fail-fast --offline",
            "source_commits": ["977670d"],
            "add_only": True,
        },
        "engines": [
            {"name": "tla-value-layer", "path": "/verif/spec", "serves_properties": sorted(CHECKS),
             "kind_free_text": "TLA+ specification (NutypeTypes, NutypeValue, ValueMachine, MC_Value*, Trace_Value) checked by TLC; "
                               "Python harness renders TLC-enumerated declarations to Rust, records executions and has TLC validate them"},
        ],
        "checks": checks,
        "notes": "See DESIGN.md. Exit codes: 0 held, 1 VIOLATION, 2 tool error.",
        "not_applicable": na,
    }


def write():
    with open(os.path.join(VERIF, "MANIFEST.json"), "w") as f:
        json.dump(build(), f, indent=1)
        f.write("\n")

import sys, os, random, json
sys.path.insert(0, "/verif/harness/py")
from vh import value_layer as VL, checks_value as CV
from vh.common import Verdict, Timer, seed
from vh.values import INT_TYPES

t = Timer()
r, adecls = VL.mc_decls("MC_ValueInt", "MC_ValueInt_quick.cfg", "mc_value_int")
print("mc", r.distinct, len(adecls), t.s())
rng = random.Random(seed())
sample = rng.sample(adecls, 120)
decls = []
for i, ad in enumerate(sample):
    decls.append(VL.instantiate_int(ad, ad["ty"], "d%04d" % i))
    # lifted twin
    tys = [t_ for t_ in INT_TYPES if (INT_TYPES[t_][0] < 0) == (INT_TYPES[ad["ty"]][0] < 0) and t_ != ad["ty"]]
    ty2 = rng.choice(tys)
    from vh.values import ARITH_INT
    if ty2 in ARITH_INT or VL.int_order_only(ad):
        decls.append(VL.instantiate_int(ad, ty2, "d%04dx" % i))
def rows_of(d):
    ins = [VL.enc_value(d, v) for v in VL.int_inputs(d, rng, 50)]
    rows = []
    for ep in VL.direct_eps(d):
        rows.append({"d": d["id"], "ep": ep, "ins": ins})
    rows.append({"d": d["id"], "ep": "default", "ins": [None]})
    return rows
obs, rej, alive = CV.build_and_run("t_int", decls, rows_of, ["serde"], ["serde"], nshards=4)
print("built", len(alive), "rejected", len(rej), t.s())
for k, v in list(rej.items())[:5]: print(k, v[:2])
v = Verdict("C01")
stats = {}
s = CV.judge_trace("C01", v, "t_int", decls, obs, stats)
print(s, stats, t.s())
print(len(v.violations), v.drift)
for rec, p in v.violations[:5]: print(rec["summary"])

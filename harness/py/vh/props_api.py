"""C05: safe client code cannot create or mutate a value bypassing the guards.
 (A) design level: MC_Api (capability rules on the emitted items, attack applicability)
 (B) structural trace validation: hook-recorded expansions -> syn analyser -> Trace_Api
 (C) attack catalogue: programs expected to fail to compile, judged by rustc, with positive controls"""
import json
import os
import random
import re
import subprocess

from .common import WORK, ToolError, Verdict, Timer, ensure_dir, seed, tier, log
from .crate import Crate, shard, build_many, build_tool
from .render_decl import render_src
from .tlc import run_tlc, json_rows, validate_trace
from .props_decl import mc_decl_rows, FEAT_DEPS

ALL_FEATS = ["arbitrary", "new_unchecked", "regex", "serde"]

FAM = {"int": ("i32", "5", "greater_or_equal = 1"), "float": ("f64", "5.5", "greater_or_equal = 1.0"),
       "string": ("String", "String::from(\"abc\")", "not_empty"), "any": ("Vec<i32>", "vec![1, 2]", "predicate = |v| !v.is_empty()")}


def base_decl(cfg, name="Nt"):
    """-> (declaration text, constructor expression for a valid value)"""
    ty, val, rule = FAM[cfg["fam"]]
    parts = []
    if cfg["fam"] == "string":
        parts.append("sanitize(trim)")
    if cfg["validated"]:
        parts.append("validate(%s)" % (rule if not cfg.get("generic") else "predicate = |v| !v.is_empty()"))
    traits = ["Debug"] + [t for t in cfg["traits"]]
    parts.append("derive(%s)" % ", ".join(traits))
    if cfg["new_unchecked"]:
        parts.append("new_unchecked")
    if cfg["const_fn"] and cfg["fam"] in ("int", "float") :
        parts.append("const_fn")
    vis = (cfg["vis"] + " ") if cfg["vis"] else ""
    if cfg.get("generic"):
        # generic twin of the `any` family: Nt<T>(Vec<T>), used at T = i32
        decl = "#[nutype(\n    %s\n)]\n%sstruct %s<T>(Vec<T>);\n" % (",\n    ".join(parts), vis, name)
        mk = ("%s::<i32>::try_new(%s).unwrap()" % (name, val)) if cfg["validated"] else ("%s::<i32>::new(%s)" % (name, val))
        return decl, mk, ty, val
    decl = "#[nutype(\n    %s\n)]\n%sstruct %s(%s);\n" % (",\n    ".join(parts), vis, name, ty)
    mk = "%s::try_new(%s).unwrap()" % (name, val) if cfg["validated"] else "%s::new(%s)" % (name, val)
    return decl, mk, ty, val


ATTACK_BODY = {
    "tuple_ctor": "let _ = m::Nt({V});",
    "struct_literal": "let _ = m::Nt {{ 0: {V} }};",
    "hidden_module_ctor": "let _ = m::__nutype_Nt__::Nt({V});",
    "field_read": "let t = m::mk(); let _ = t.0;",
    "field_write": "let mut t = m::mk(); t.0 = {V};",
    "destructure": "let m::Nt(x) = m::mk(); let _ = x;",
    "deref_assign": "let mut t = m::mk(); *t = {V};",
    "as_mut": "let mut t = m::mk(); let r = <m::Nt as AsMut<{TY}>>::as_mut(&mut t); let _ = r;",
    "borrow_mut": "let mut t = m::mk(); let r = <m::Nt as ::std::borrow::BorrowMut<{TY}>>::borrow_mut(&mut t); let _ = r;",
    "deref_mut": "let mut t = m::mk(); let _ = <m::Nt as ::std::ops::DerefMut>::deref_mut(&mut t);",
    "mem_replace": "let mut t = m::mk(); let _ = ::std::mem::replace(&mut *t, {V});",
    "iter_mut": "let mut t = m::mk(); for x in t.iter_mut() {{ *x = 0; }}",
    "for_in_mut": "let mut t = m::mk(); for x in &mut t {{ *x = 0; }}",
    "push_through_deref": "let mut t = m::mk(); t.push(9);",
    "call_sanitize": "let _ = m::Nt::__sanitize__({V}.into());",
    "call_validate": "let v: {TY} = {V}.into(); let _ = m::Nt::__validate__(&v);",
    "new_unchecked_without_flag": "let _ = unsafe {{ m::Nt::new_unchecked({V}.into()) }};",
    "new_unchecked_without_unsafe": "let _ = m::Nt::new_unchecked({V}.into());",
    "default_without_default": "let _ = <m::Nt as Default>::default();",
    "from_with_validation": "let v: {TY} = {V}.into(); let _: m::Nt = v.into();",
    "name_private_type": "let _: Option<m::Nt> = None;",
    "name_private_error": "let _: Option<m::NtError> = None;",
    "name_private_parse_error": "let _: Option<outer::m::NtParseError> = None;",
    # second wave: the same capabilities through other syntax
    "struct_update": "let _ = m::Nt {{ 0: {V}, ..m::mk() }};",
    "ref_mut_pattern": "let mut t = m::mk(); let m::Nt(ref mut x) = t; let _ = x;",
    "index_mut": "let mut t = m::mk(); t[0] = 9;",
    "string_push_through_deref": "let mut t = m::mk(); t.push_str(\"x\");",
    "op_assign_through_deref": "let mut t = m::mk(); *t += {V};",
    "into_mut_ref": "let mut t = m::mk(); let r: &mut {TY} = (&mut t).into(); let _ = r;",
    "as_mut_method": "let mut t = m::mk(); let r: &mut {TY} = t.as_mut(); let _ = r;",
    "swap_through_deref": "let mut t = m::mk(); let mut v: {TY} = {V}.into(); ::std::mem::swap(&mut *t, &mut v);",
}


def attack_file(cfg, attack):
    """the attack lives where client code of the newtype lives: inside the declaring module `m` (next to the
    hidden `__nutype_*` module), except the naming attacks, which come from outside `m`."""
    decl, mk, ty, val = base_decl(cfg)
    body = ATTACK_BODY[attack].format(V=val, TY=ty)
    head = "#![allow(unused, private_interfaces, dead_code)]\n"
    if attack.startswith("name_private"):
        inner = "mod m {\n    use nutype::nutype;\n    %s\n    pub fn mk() -> Nt { %s }\n}\n" % (decl.replace("\n", "\n    "), mk)
        if attack == "name_private_parse_error":
            return head + "mod outer {\n%s}\npub fn attack() { %s }\n" % (inner, body)
        return head + inner + "pub fn attack() { %s }\n" % body
    body = re.sub(r"(?<![A-Za-z_:])m::", "", body)
    if cfg.get("generic"):
        body = body.replace("Nt::", "Nt::<i32>::").replace("Nt(", "Nt::<i32>(").replace("<Nt as", "<Nt<i32> as").replace("let Nt::<i32>(x)", "let Nt(x)")
    rt = "Nt<i32>" if cfg.get("generic") else "Nt"
    return head + "pub mod m {\n    use nutype::nutype;\n    %s\n    pub fn mk() -> %s { %s }\n    pub fn attack() { %s }\n}\n" % (
        decl.replace("\n", "\n    "), rt, mk, body)


def control_file(cfg):
    decl, mk, ty, val = base_decl(cfg)
    rt = "Nt<i32>" if cfg.get("generic") else "Nt"
    inner = "pub mod m {\n    use nutype::nutype;\n    %s\n    pub fn mk() -> %s { %s }\n}\n" % (decl.replace("\n", "\n    "), rt, mk)
    return "#![allow(unused, private_interfaces, dead_code)]\n%spub fn control() { let t = m::mk(); let _ = t.into_inner(); }\n" % inner


def main_rs(ids):
    s = "#![allow(unused, non_snake_case, non_camel_case_types, dead_code)]\n"
    for k in ids:
        s += '#[path = "d/%s.rs"] mod %s;\n' % (k, k)
    s += "fn main() {}\n"
    return s


def trait_last(path):
    p = re.sub(r"<.*$", "", path)
    return p.split("::")[-1] if p else ""


def normalise_items(items):
    out = []
    for it in items:
        st = it.get("self_ty", "")
        out.append({"kind": it["kind"], "name": it["name"], "vis": it["vis"], "recv": it["recv"] or "none",
                    "trait_name": trait_last(it.get("trait", "")), "unsafe": it["unsafe"], "const": it["const"],
                    "ret_self": it["ret_self"], "ret_mut": it["ret_mut"], "direct": it["direct"], "calls_ctor": it["calls_ctor"],
                    "has_unsafe": it["has_unsafe"], "in_type_impl": it["in_type_impl"], "field_vis": it.get("field_vis", ""),
                    "for_mut_ref": st.strip().startswith("&") and "mut" in st.split()[:4],
                    "writes_field": bool(it.get("writes_field")), "mut_self_param": bool(it.get("mut_self_param")),
                    "non_exhaustive": bool(it.get("non_exhaustive"))})
    return out


def corpus_events(tdir):
    """(D) the maintainers' own declarations: build /repo's workspace (test suite, examples, dummy) with the hook on and
    return one Trace_Api event per recorded expansion. Nothing in /repo is written (own target dir)."""
    import glob
    import shutil
    from .common import REPO
    tgt = os.path.join(WORK, "target_corpus")
    hook = os.path.join(tdir, "corpus_hook.ndjson")
    env = {**os.environ, "CARGO_TARGET_DIR": tgt, "NUTYPE_VERIF_TRACE": hook, "CARGO_NET_OFFLINE": "true"}
    env.pop("RUSTFLAGS", None)

    def build():
        if os.path.exists(hook):
            os.remove(hook)
        p = subprocess.run(["cargo", "test", "--workspace", "--no-run", "--offline", "--all-features"], cwd=REPO, env=env,
                           stdout=subprocess.PIPE, stderr=subprocess.STDOUT, text=True)
        return p
    # force re-expansion of the workspace members (the hook's environment variable is invisible to cargo's fingerprints)
    meta = subprocess.run(["cargo", "metadata", "--offline", "--no-deps", "--format-version", "1"], cwd=REPO, env=env,
                          stdout=subprocess.PIPE, stderr=subprocess.PIPE, text=True)
    names = [pk["name"] for pk in json.loads(meta.stdout)["packages"]] if meta.returncode == 0 else []
    for nm in names:
        for fp in glob.glob(os.path.join(tgt, "debug", ".fingerprint", nm.replace("-", "_") + "-*")) + glob.glob(os.path.join(tgt, "debug", ".fingerprint", nm + "-*")):
            shutil.rmtree(fp, ignore_errors=True)
    p = build()
    n = sum(1 for _ in open(hook)) if os.path.exists(hook) else 0
    if p.returncode == 0 and n < 100:
        shutil.rmtree(tgt, ignore_errors=True)
        p = build()
        n = sum(1 for _ in open(hook)) if os.path.exists(hook) else 0
    if p.returncode != 0:
        raise ToolError("the workspace of the repository does not build with --all-features (hook on):\n" + p.stdout[-2000:])
    if n < 100:
        raise ToolError("the hook recorded only %d expansions of the repository's own declarations" % n)
    ana = build_tool("vanalyse", "vanalyse")
    items_path = os.path.join(tdir, "corpus_items.ndjson")
    subprocess.run([ana, hook, items_path], check=True)
    events, index = [], []
    for line in open(items_path):
        o = json.loads(line)
        if not o.get("ok"):
            continue
        m = re.search(r"(pub\s*(\([^)]*\))?)?\s*struct\b", o["def"])
        vis = (m.group(1) or "").replace(" ", "") if m else ""
        cfg = {"d": "corpus%03d" % len(events), "type": o["type"], "vis": vis, "new_unchecked": bool(re.search(r"\bnew_unchecked\b", str(o["attrs"]))),
               "feature_new_unchecked": True}
        events.append({"d": cfg["d"], "cfg": cfg, "items": normalise_items(o["items"])})
        index.append((cfg["d"], o))
    return events, index


def check_C05():
    t = Timer()
    q = tier() == "quick"
    rng = random.Random(seed())
    verdict = Verdict("C05")
    # ---------------- (A) design level
    ra = run_tlc("MC_Api", "MC_Api.cfg", "mc_api", workers=16)
    rows = sorted([obj for (_i, obj) in json_rows(ra, "ATTACKS")], key=lambda o: json.dumps(o, sort_keys=True))
    if not rows:
        raise ToolError("MC_Api emitted no attack rows")
    if q and len(rows) > 36:
        keep = [r for r in rows if r["cfg"]["new_unchecked"] and r["cfg"]["const_fn"]][:6]
        keep += [r for r in rows if r["cfg"]["fam"] == "any" and r["cfg"]["traits"] and r not in keep][:4]
        keep += [r for r in rows if r["cfg"]["fam"] == "float" and r["cfg"]["traits"] and r["cfg"]["vis"] == "" and r["cfg"]["validated"] and r not in keep][:2]
        rest = [r for r in rows if r not in keep]
        rows = keep + rng.sample(rest, 30)
    # generic twins (the `any` family with a type parameter); new_unchecked on a generic type compiles since fix bd1c247,
    # so its positive control is as strict as the others
    for nu in (False, True):
        for validated in (False, True):
            rows.append({"cfg": {"fam": "any", "validated": validated, "traits": ["AsRef", "Deref", "Borrow"], "new_unchecked": nu, "vis": "pub(crate)",
                                 "const_fn": False, "generic": True},
                         "attacks": ["tuple_ctor", "field_write", "deref_assign", "push_through_deref", "call_sanitize", "hidden_module_ctor", "for_in_mut",
                                     "index_mut", "swap_through_deref", "struct_update", "ref_mut_pattern"]
                                    + (["new_unchecked_without_unsafe"] if nu else ["new_unchecked_without_flag"]),
                         "control_may_fail": False})
    # ---------------- (C) attack catalogue
    files, meta = {}, {}
    for ci, row in enumerate(rows):
        cfg = row["cfg"]
        cid = "c%03d_control" % ci
        files[cid] = control_file(cfg)
        meta[cid] = (cfg, "control_optional" if row.get("control_may_fail") else "control")
        for a in row["attacks"]:
            if a in ("as_mut", "borrow_mut", "deref_assign", "deref_mut", "mem_replace", "iter_mut", "for_in_mut", "push_through_deref") and cfg["fam"] == "string" and a in ("iter_mut", "for_in_mut", "push_through_deref"):
                continue
            if a == "call_sanitize" and cfg["fam"] == "any":
                pass
            k = "c%03d_%s" % (ci, a)
            files[k] = attack_file(cfg, a)
            meta[k] = (cfg, a)
    crates = []
    for si, part in enumerate(shard(sorted(files), 8)):
        crates.append(Crate("c05_att_s%d" % si, ALL_FEATS, ["serde", "regex", "arbitrary"], {k: files[k] for k in part}, main_rs))
    build_many(crates, max_rounds=10)
    alive = set(k for c in crates for k in c.alive)
    rejected = {}
    for c in crates:
        rejected.update(c.rejected)
    n_att = 0
    bad_controls = [k for k in files if meta[k][1] == "control" and k not in alive]
    if bad_controls:
        raise ToolError("positive controls do not compile: %s" % [(k, rejected[k][:1]) for k in bad_controls[:3]])
    dead_controls = set(k[:4] for k in files if meta[k][1] == "control_optional" and k not in alive)
    for k in sorted(files):
        cfg, a = meta[k]
        if a in ("control", "control_optional") or k[:4] in dead_controls:
            continue
        n_att += 1
        if k in alive:
            verdict.violation({"property": "C05", "decl": k, "attack": a, "cfg": cfg, "kind": "attack_compiles", "tag": "attack:" + a,
                               "program": files[k],
                               "summary": "attack `%s` COMPILES against %s" % (a, json.dumps(cfg))})
    # ---------------- (B) structural validation of recorded expansions
    rd, drows = mc_decl_rows()
    sel = []
    for k, obj in sorted(drows.items()):
        src = obj["src"]
        if obj["class"] != "accept" or src["tparams"] or src["name"] != "Nt":
            continue
        if sorted(src["feats"]) != sorted(["serde", "regex", "arbitrary", "new_unchecked", "schemars08"]):
            continue
        if any(t_ == "JsonSchema" for b in src["blocks"] for t_ in b["der"]):
            continue
        sel.append(k)
    if q and len(sel) > 200:
        sel = rng.sample(sel, 200)
    files2, cfgs = {}, {}
    for k in sel:
        src = json.loads(json.dumps(drows[k]["src"]))
        name = "Nt" + k
        src["name"] = name
        vis = rng.choice(["pub", "pub(crate)", "", "pub(super)", "pub(in crate)", "pub(self)"])
        text = render_src(src).replace("pub struct %s" % name, ("%s struct %s" % (vis, name)).strip())
        files2[k] = text
        cfgs[name] = {"d": k, "type": name, "vis": vis.replace(" ", ""), "new_unchecked": any(b["bk"] == "new_unchecked" for b in src["blocks"]),
                      "feature_new_unchecked": True}
    for ci, row in enumerate(rows):
        cfg = row["cfg"]
        name = "NtB%03d" % ci
        decl, mk, ty, val = base_decl(cfg, name)
        k = "b%03d" % ci
        files2[k] = "#![allow(unused, dead_code)]\nuse nutype::nutype;\n" + decl
        cfgs[name] = {"d": k, "type": name, "vis": cfg["vis"], "new_unchecked": cfg["new_unchecked"], "feature_new_unchecked": True}
    tdir = ensure_dir(os.path.join(WORK, "trace", "c05"))
    hook_trace = os.path.join(tdir, "hook.ndjson")
    if os.path.exists(hook_trace):
        os.remove(hook_trace)
    os.environ["NUTYPE_VERIF_TRACE"] = hook_trace
    try:
        c2 = [Crate("c05_str_s%d" % si, ALL_FEATS + ["verif_hooks"], ["serde", "regex", "arbitrary"], {k: files2[k] for k in part}, main_rs)
              for si, part in enumerate(shard(sorted(files2), 4))]
        build_many(c2)
    finally:
        os.environ.pop("NUTYPE_VERIF_TRACE", None)
    if not os.path.exists(hook_trace):
        raise ToolError("the verif_hooks hook wrote no trace (is the hook commit present in /repo?)")
    ana = build_tool("vanalyse", "vanalyse")
    items_path = os.path.join(tdir, "items.ndjson")
    subprocess.run([ana, hook_trace, items_path], check=True)
    events, index = [], []
    seen = set()
    for line in open(items_path):
        o = json.loads(line)
        cfg = cfgs.get(o["type"])
        if cfg is None or not o.get("ok") or o["type"] in seen:
            continue
        seen.add(o["type"])
        events.append({"d": cfg["d"], "cfg": cfg, "items": normalise_items(o["items"])})
        index.append((cfg["d"], o))
    if len(events) < len(cfgs) // 2:
        raise ToolError("only %d of %d expansions were recorded by the hook" % (len(events), len(cfgs)))
    n_generated = len(events)
    cev, cidx = corpus_events(tdir)
    events += cev
    index += cidx
    tp = os.path.join(tdir, "trace.ndjson")
    with open(tp, "w") as f:
        for e in events:
            f.write(json.dumps(e) + "\n")
    summary, bad, drift, tr = validate_trace("Trace_Api", "Trace_Api.cfg", "trace_c05", tp, tp)
    for (l, _i, obj) in bad:
        d, o = index[l - 1]
        verdict.violation({"property": "C05", "decl": d, "kind": "structural", "rules": sorted(obj["rules"]), "tag": "rule:" + sorted(obj["rules"])[0],
                           "declaration": o["def"], "attrs": o["attrs"],
                           "summary": "expansion of `%s` [%s] breaks: %s" % (o["def"][:80], str(o["attrs"])[:120], ", ".join(sorted(obj["rules"])))})
    cov = {"states": ra.distinct + rd.distinct + tr.distinct, "transitions": ra.generated + rd.generated,
           "traces_validated_against_impl": summary["events"],
           "attack_programs": n_att, "positive_controls": len([1 for k in files if meta[k][1] == "control"]),
           "expansions_analysed": len(events), "expansions_of_generated_declarations": n_generated,
           "expansions_of_the_repository_own_declarations": len(cev), "evaluations": n_att + len(events), "distinct_nontrivial": n_att + len(events),
           "rule": "TLC checks on the design model that no emitted item offers a bypass capability and enumerates (configuration, attack) pairs; each attack is a "
                   "program that must fail to compile (with a compiling positive control per configuration); the expansions of the same and of the MC_Decl "
                   "declarations - and of every declaration in the repository's own test suite and examples (workspace built with --all-features) - recorded by the verif_hooks hook and parsed by a syn analyser into capability records, are validated by TLC against the rules",
           "samples": [{"attack": meta[k][1], "program": files[k].splitlines()[-1]} for k in sorted(files)[1:3]],
           "limit": "'for all client programs' is approximated by the catalogue plus the structural argument (no capability, no bypass)",
           "exhaustive": False}
    ev = {"tier": tier(), "seed": seed(), "level": "model_checking", "coverage": cov,
          "assumptions": ["rustc as judge of the attack programs", "the syn analyser's capability classification (harness/analyser)"]}
    return verdict.finish(ev, t.s())

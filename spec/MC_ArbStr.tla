------------------------------ MODULE MC_ArbStr ------------------------------
(***************************************************************************)
(* The String generator (string/gen/traits/arbitrary.rs) as a state        *)
(* machine over character classes: a (plain), space (trimmed), U+00DF      *)
(* (upper-cases to two chars), U+0130 (lower-cases to two chars), NUL      *)
(* (what `u.arbitrary::<char>()` yields once the input is exhausted).      *)
(*                                                                         *)
(*   Spec -> PickLen -> Fill* -> (TrimLoop)* -> Construct -> done          *)
(*                                                                         *)
(* Spec: min_len is the GREATEST of {len_char_min = n, not_empty -> 1}     *)
(* (since the fix; before it the FIRST in written order, so a later larger *)
(* minimum was shadowed), max_len the first len_char_max or min + 16;      *)
(* a character whose mapping under the declared lowercase / uppercase      *)
(* sanitizer is longer than one character is replaced (since the fix;      *)
(* before it the case sanitizers were ignored and U+00DF / U+0130 made the  *)
(* sanitised string longer than len_char_max).                             *)
(* DECLARATIVE (C09): the result is a value the constructor accepts, or an *)
(* arbitrary::Error; never a panic, and the trim loop terminates.          *)
(***************************************************************************)
EXTENDS NutypeArb, StrEnv, Json, SequencesExt

CONSTANTS Tier

Alphabet == {97, 32, 223, 304, 0}

RECURSIVE DropWs(_)
DropWs(s) == IF s # <<>> /\ Head(s) \in EnvWs THEN DropWs(Tail(s)) ELSE s
TrimS(s) == NReverse(DropWs(NReverse(DropWs(s))))
RECURSIVE MapCat(_, _)
MapCat(tbl, s) == IF s = <<>> THEN <<>> ELSE tbl[Head(s)] \o MapCat(tbl, Tail(s))
SPrim(n, x, env) == CASE n = "trim" -> TrimS(x) [] n = "lower" -> MapCat(EnvLower, x) [] n = "upper" -> MapCat(EnvUpper, x)

R(k, b) == [k |-> k, b |-> b, fn |-> "", p |-> <<>>, sp |-> "lit"]
San(k) == [k |-> k, fn |-> "", p |-> <<>>]
AtMostOne(S) == {{}} \cup {{x} : x \in S}
RuleSets == {a \cup b \cup c : a \in AtMostOne({R("not_empty", 0)}), b \in AtMostOne({R("len_char_min", n) : n \in {1, 2}}),
                               c \in AtMostOne({R("len_char_max", n) : n \in {2, 3}})} \ {{}}
SanSets == {a \cup b : a \in AtMostOne({San("trim")}), b \in AtMostOne({San("lowercase"), San("uppercase")})}
Decl(san, val) == [fam |-> "string", ty |-> "String", san |-> san, vmode |-> "std", val |-> val,
                   traits |-> <<"Debug", "Clone", "PartialEq", "Arbitrary">>, dflt |-> <<>>]
DeclSpace == UNION {{Decl(san, val) : san \in Perms(S), val \in Perms(V)} : S \in SanSets, V \in RuleSets}

\* build_specification
MinLikes(d) == SelectSeq(d.val, LAMBDA r : r.k \in {"len_char_min", "not_empty"})
MaxLikes(d) == SelectSeq(d.val, LAMBDA r : r.k = "len_char_max")
MinOf(r) == IF r.k = "not_empty" THEN 1 ELSE r.b
MinLen(d) == IF MinLikes(d) = <<>> THEN 0 ELSE NMax({MinOf(MinLikes(d)[i]) : i \in DOMAIN MinLikes(d)})
MaxLen(d) == IF MaxLikes(d) = <<>> THEN MinLen(d) + 16 ELSE MaxLikes(d)[1].b
HasTrim(d) == \E i \in DOMAIN d.san : d.san[i].k = "trim"

\* lengths explored when no len_char_max is declared (min + 16 would explode the alphabet strings)
Targets(d) == IF MaxLikes(d) = <<>> THEN {MinLen(d), MinLen(d) + 1} ELSE MinLen(d)..MaxLen(d)

VARIABLES d, pc, target, output, refills, out
svars == <<d, pc, target, output, refills, out>>

SInit == d \in DeclSpace /\ pc = "pick_len" /\ target = 0 /\ output = <<>> /\ refills = 0 /\ out = NoneOut

\* let target_len = u.int_in_range(min..=max)?
PickLen ==
  /\ pc = "pick_len"
  /\ IF MinLen(d) > MaxLen(d) THEN out' = PanicOut /\ pc' = "done" /\ UNCHANGED <<target>>
     ELSE \E t \in Targets(d) : target' = t /\ pc' = "fill" /\ out' = out
  /\ UNCHANGED <<d, output, refills>>

\* `let ch = if ch.to_lowercase().count() == 1 { ch } else { 'x' }` (resp. to_uppercase) when a case sanitizer is declared
HasSan(dd, k) == \E i \in DOMAIN dd.san : dd.san[i].k = k
KeepLen(dd, c) ==
  IF HasSan(dd, "lowercase") /\ Len(EnvLower[c]) # 1 THEN 97
  ELSE IF HasSan(dd, "uppercase") /\ Len(EnvUpper[c]) # 1 THEN 97
  ELSE c

\* for _ in 0..target_len { output.push(u.arbitrary()?) }
Fill ==
  /\ pc = "fill"
  /\ IF Len(output) < target THEN \E c \in Alphabet : output' = Append(output, KeepLen(d, c)) /\ pc' = pc
     ELSE output' = output /\ pc' = (IF HasTrim(d) THEN "trim_loop" ELSE "construct")
  /\ UNCHANGED <<d, target, refills, out>>

\* loop { match output.trim().chars().count().cmp(&target_len) { Equal => break, Less => trim + push another char, .. } }
\* after two refills the input is exhausted and every further char is NUL
TrimLoop ==
  /\ pc = "trim_loop"
  /\ LET count == Len(TrimS(output)) IN
     IF count = target THEN pc' = "construct" /\ UNCHANGED <<output, refills>>
     ELSE /\ pc' = pc /\ refills' = refills + 1
          /\ \E c \in (IF refills < 2 THEN Alphabet ELSE {0}) : output' = Append(TrimS(output), KeepLen(d, c))
  /\ UNCHANGED <<d, target, out>>

\* Self::try_new(inner_value).unwrap_or_else(panic)
Construct ==
  /\ pc = "construct"
  /\ LET made == OpCtor(d, output, <<>>) IN out' = IF IsOk(made) THEN made ELSE PanicOut
  /\ pc' = "done"
  /\ UNCHANGED <<d, target, output, refills>>

SSpec == SInit /\ [][PickLen \/ Fill \/ TrimLoop \/ Construct]_svars

\* candidates (DESIGN.md section 7, #5)
MinShadowed(dd) == \E i \in DOMAIN dd.val : dd.val[i].k \in {"len_char_min", "not_empty"} /\
                     (IF dd.val[i].k = "not_empty" THEN 1 ELSE dd.val[i].b) > MinLen(dd)
CaseExpands(dd) == \E i \in DOMAIN dd.san : dd.san[i].k \in {"lowercase", "uppercase"}
\* (both candidates are repaired; what is left is a declaration whose minimum exceeds its maximum: no valid value at all)
KnownS(dd) == MinLen(dd) > MaxLen(dd)

\* C09 on the model
NoPanic == (pc = "done") => (out.k # "panic" \/ KnownS(d))
\* the trim loop terminates: the number of refills is bounded by the target length plus the exhausted tail
Terminates == refills <= target + 3

EmitDecl == (pc = "pick_len") => PrintT(<<"DECL", 0, ToJson([d |-> d, known |-> KnownS(d), shadow |-> MinShadowed(d), expands |-> CaseExpands(d)])>>)
=============================================================================

---------------------------- MODULE MC_ValueAny ----------------------------
(***************************************************************************)
(* Bounded exhaustive exploration of the run-time layer for the "any"      *)
(* family (inner types the macro knows nothing about).  The catalogue      *)
(* inner type is Vec<i32>, non-generic and as the generic Nt<T: Ord>       *)
(* (Vec<T>) instantiated at i32: generic parameters must not change the    *)
(* outcome (C01).  Values are sequences of integers.                       *)
(***************************************************************************)
EXTENDS ValueMachine, Json, SequencesExt

CONSTANTS Tier

Elems == {1, 2, 3}
Vals == UNION {[1..n -> Elems] : n \in 0..3}

San(fn) == [k |-> "with", fn |-> fn, p |-> <<>>]
SanSeqs == {<<>>, <<San("sort")>>, <<San("rev")>>, <<San("take2")>>}

P(fn) == [k |-> "predicate", b |-> 0, fn |-> fn, p |-> <<>>, sp |-> "lit"]
ValSeqs == {<<P("non_empty")>>, <<P("sorted")>>, <<P("short")>>}
CustomVals == {<<[k |-> "custom", b |-> 0, fn |-> "short", p |-> <<>>, sp |-> "lit"]>>}

\* (derive(Into) on the generic twin works since fix c0c4844)
\* "Cow<[i32]>" is the lifetime-generic newtype Nt<'a>(Cow<'a, [i32]>) (used at 'static): lifetimes in every generated impl
StdTraitsOf(ty) == <<"Debug", "Clone", "PartialEq", "Eq", "PartialOrd", "Ord", "Hash",
               "AsRef", "Deref", "Borrow", "Into", "Default">> \o (IF ty = "Cow<[i32]>" THEN <<>> ELSE <<"IntoIterator">>) \o <<"Serialize", "Deserialize">>
DeclC(conv, ty, san, vmode, val, dflt) ==
  [fam |-> "any", ty |-> ty, san |-> san, vmode |-> vmode, val |-> val,
   traits |-> StdTraitsOf(ty) \o (IF vmode = "none" /\ conv = "From" THEN <<"From">> ELSE <<"TryFrom">>),
   dflt |-> dflt]
Decl(ty, san, vmode, val, dflt) == DeclC("From", ty, san, vmode, val, dflt)


\* a generic newtype can only have a type-agnostic default expression (`vec![]`)
Defaults(ty) == IF ty = "Vec<T>" THEN {<<<<>>>>} ELSE {<<<<2, 1>>>>, <<<<>>>>}

\* a third inner type of the "any" family: a user struct Point(i32, i32) with hand-written Display ("x,y") and
\* FromStr; its values are the two-element sequences.  It brings Display / FromStr / Copy to the family (C06, C13).
PointTraits == <<"Debug", "Clone", "Copy", "PartialEq", "Eq", "PartialOrd", "Ord", "Hash", "AsRef", "Deref", "Borrow", "Into",
                 "Display", "FromStr", "Default", "Serialize", "Deserialize">>
PointDecl(conv, san, vmode, val) ==
  [fam |-> "any", ty |-> "Point", san |-> san, vmode |-> vmode, val |-> val,
   traits |-> PointTraits \o (IF vmode = "none" /\ conv = "From" THEN <<"From">> ELSE <<"TryFrom">>), dflt |-> <<<<1, 2>>>>]
PointDecls ==
  {PointDecl("From", san, "std", val) : san \in {<<>>, <<San("rev")>>}, val \in {<<P("sorted")>>}}
  \cup {PointDecl(c, san, "none", <<>>) : san \in {<<>>, <<San("rev")>>}, c \in {"From", "TryFrom"}}
PointVals == [1..2 -> Elems]
\* ... and the bare type parameter as inner type, `Nt<T>(T)` used at T = Point: every trait impl is generic over T
\* (no sanitizer or validator can be written for an unknown T; `Into` is impossible: `impl<T> From<Nt<T>> for T`)
GenPointTraits == <<"Debug", "Clone", "Copy", "PartialEq", "Eq", "PartialOrd", "Ord", "Hash", "AsRef", "Deref", "Borrow",
                    "Display", "FromStr", "Serialize", "Deserialize">>
GenPointDecls ==
  {[fam |-> "any", ty |-> "Gen<Point>", san |-> <<>>, vmode |-> "none", val |-> <<>>,
    traits |-> GenPointTraits \o <<c>>, dflt |-> <<>>] : c \in {"From"}}       \* (`impl<T> TryFrom<T> for Nt<T>` overlaps core's blanket impl)

DeclSpace ==
  PointDecls \cup GenPointDecls \cup
  UNION {
    {Decl(ty, san, "std", val, dflt) : san \in SanSeqs, val \in ValSeqs, dflt \in Defaults(ty)}
    \cup {Decl(ty, san, "none", <<>>, dflt) : san \in SanSeqs, dflt \in Defaults(ty)}
    \cup {DeclC("TryFrom", ty, san, "none", <<>>, dflt) : san \in SanSeqs, dflt \in Defaults(ty)}
    \cup {Decl(ty, san, "custom", val, dflt) : san \in SanSeqs, val \in CustomVals, dflt \in Defaults(ty)}
  : ty \in {"Vec<i32>", "Vec<T>", "Cow<[i32]>"}}
  \* ... and a byte vector (serde has a dedicated `bytes` data model type that a transparent newtype must not switch to)
  \cup {Decl("Vec<u8>", san, "none", <<>>, dflt) : san \in {<<>>, <<San("sort")>>}, dflt \in Defaults("Vec<u8>")}
  \cup {Decl("Vec<u8>", <<>>, "std", val, dflt) : val \in {<<P("non_empty")>>}, dflt \in Defaults("Vec<u8>")}

MCDeclSeq == SetToSeq(DeclSpace)

MCInputsOf(d, e) ==
  IF e = "default" THEN {In(<<>>)}
  ELSE {In(x) : x \in (IF d.ty \in {"Point", "Gen<Point>"} THEN PointVals ELSE Vals)} \cup (IF e \in {"deser", "parse"} THEN {InFail} ELSE {})

MCEpsOf(d) ==
  {CtorName(d), "deser"} \cup (IF d.dflt # <<>> THEN {"default"} ELSE {}) \cup (IF d.ty \in {"Point", "Gen<Point>"} THEN {"parse"} ELSE {}) \cup (IF NInSeq("From", d.traits) THEN {"from"} ELSE {"try_from"})

MCPrim(n, x, env) == x

EmitDecl == (pc = "idle") => PrintT(<<"DECL", di, ToJson(D)>>)
=============================================================================
